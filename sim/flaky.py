"""Flaky(inner): a harness-defined metahandler (through the documented custom-metahandler
API) that raises SynthesisException when the simulator's fault plan says so -- cooperative
fault point F1.  validate() is the inner refinement's."""
from __future__ import annotations

from geneticengine.grammar.metahandlers.base import MetaHandlerGenerator, SynthesisException


class Flaky(MetaHandlerGenerator):
    plan = None  # callable() -> bool, installed per run by the world

    def __init__(self, inner):
        self.inner = inner
        self._sim_label = f"Flaky({type(inner).__name__})"

    def validate(self, v) -> bool:
        return self.inner.validate(v)

    def generate(self, random, grammar, base_type, rec, dependent_values):
        plan = Flaky.plan
        if plan is not None and plan():
            raise SynthesisException("injected by the simulator (Flaky)")
        return self.inner.generate(random, grammar, base_type, rec, dependent_values)

    def get_dependencies(self):
        return self.inner.get_dependencies()

    def __repr__(self):
        return f"Flaky({self.inner!r})"
