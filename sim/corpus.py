"""Corpora for C05/C19: class hierarchies shipped with the library (geml.grammars) and defined by
its test-suite, turned into specifications by INDEPENDENT introspection (dataclasses / typing /
__mro__), never through the library's own grammar utilities."""
from __future__ import annotations

import importlib
import importlib.util
import inspect
import os
import sys
import typing
from abc import ABC
from typing import Protocol

CORPUS_MODULES = [
    "geml.grammars.basic_math", "geml.grammars.letter", "geml.grammars.literals", "geml.grammars.regex",
    "geml.grammars.ruleset_classification", "geml.grammars.sgp", "geml.grammars.symbolic_regression",
    "geml.grammars.coding.classes", "geml.grammars.coding.conditions", "geml.grammars.coding.control_flow",
    "geml.grammars.coding.lists", "geml.grammars.coding.logical_ops", "geml.grammars.coding.numbers",
]
TEST_FILES = [
    "tests/core/grammar_test.py", "tests/core/ind_gen_test.py", "tests/core/is_terminal_test.py", "tests/core/usable_grammar_test.py",
    "tests/core/metahandlers_test.py", "tests/representations/tree_based/relabel_test.py", "tests/representations/stack/stack_test.py",
    "tests/representations/dependent_types_test.py", "tests/representations/tree_based/initializer_test.py", "tests/gp/type_safety_test.py",
    "tests/gp/probabilistic_test.py", "tests/representations/tree_based/nondataclass_test.py",
]


class Unsupported(Exception):
    pass


def load(name, repo):
    if name.endswith(".py"):
        path = os.path.join(repo, name)
        modname = "simcorpus_" + name.replace("/", "_")[:-3]
        spec = importlib.util.spec_from_file_location(modname, path)
        mod = importlib.util.module_from_spec(spec)
        sys.modules[modname] = mod
        spec.loader.exec_module(mod)
        return mod
    return importlib.import_module(name)


def is_abstract_cls(c):
    return (len(c.__mro__) > 1 and c.__mro__[1] in (ABC, Protocol)) or bool(c.__dict__.get("__gengy__", {}).get("abstract"))


def convert_type(t, names, pending):
    if t in (int, float, str, bool):
        return [t.__name__]
    if isinstance(t, type):
        if t.__module__ == "builtins":
            raise Unsupported(str(t))
        if t not in names:
            pending.append(t)
            names[t] = f"{t.__module__.rsplit('.', 1)[-1]}__{t.__qualname__.replace('.', '_')}"
        return ["cls", names[t]]
    origin = typing.get_origin(t)
    if hasattr(t, "__metadata__"):
        inner = convert_type(typing.get_args(t)[0], names, pending)
        return ["ann", inner, convert_mh(t.__metadata__[0])]
    if origin is list:
        return ["list", convert_type(typing.get_args(t)[0], names, pending)]
    if origin is tuple:
        return ["tuple", [convert_type(x, names, pending) for x in typing.get_args(t)]]
    if origin is typing.Union:
        return ["union", [convert_type(x, names, pending) for x in typing.get_args(t)]]
    raise Unsupported(str(t))


def convert_mh(mh):
    if isinstance(mh, type):
        # a CLASS given as refinement (tests/core/usable_grammar_test: Annotated[D, NoOp]): fine for grammar analysis, which is all
        # that test does, but not a usable refinement -- such hierarchies are left out of the synthesis strata
        return ["Opaque", "class:" + mh.__name__]
    n = type(mh).__name__
    if n == "IntRange":
        return ["IntRange", mh.min, mh.max]
    if n == "FloatRange":
        return ["FloatRange", mh.min, mh.max]
    if n in ("ListSizeBetween", "ListSizeBetweenWithoutListOperations"):
        return ["ListSizeBetween" if n == "ListSizeBetween" else "LSBWLO", mh.min, mh.max]
    if n == "VarRange":
        return ["VarRange", list(mh.options)]
    if n == "IntList":
        return ["IntList", list(mh.elements)]
    if n == "FloatList":
        return ["FloatList", list(mh.elements)]
    return ["Opaque", n]


class CorpusBuilt:
    """the duck-typed part of sim.spec.Built that Ref and C05 use"""

    def __init__(self, spec, cls_by_name, expansion=False):
        self.spec = spec
        self.cls = cls_by_name
        self.name_of = {v: k for k, v in cls_by_name.items()}
        self.source = "# corpus: " + spec.get("origin", "")

    def considered(self):
        return [self.cls[n] for n in self.spec["considered"]]

    def start(self):
        return self.cls[self.spec["start"]]

    def extract(self):
        from geneticengine.grammar.grammar import extract_grammar

        return extract_grammar(self.considered(), self.start(), self.spec.get("expansion_depthing", False))

    def dispose(self):
        pass


def specs_of_module(mod, origin):
    """one specification per root abstract class of the module (or of a list of modules taken together)"""
    mods = mod if isinstance(mod, list) else [mod]
    local = []
    for m in mods:
        for _, c in inspect.getmembers(m, inspect.isclass):
            if c.__module__ == m.__name__ and c not in local:
                local.append(c)
    names = {}
    for c in local:
        names[c] = f"{c.__module__.rsplit('.', 1)[-1]}__{c.__qualname__.replace('.', '_')}"
    roots = [c for c in local if is_abstract_cls(c) and not (len(c.__mro__) > 1 and c.__mro__[1] in names)]
    out = []
    for root in roots:
        nm = dict(names)
        pending = list(local)
        done = []
        classes = []
        try:
            while pending:
                c = pending.pop(0)
                if c in done:
                    continue
                done.append(c)
                if c not in nm:
                    nm[c] = f"{c.__module__.rsplit('.', 1)[-1]}__{c.__qualname__.replace('.', '_')}"
                parent = c.__mro__[1] if len(c.__mro__) > 1 else object
                pname = None
                if parent not in (object, ABC, Protocol, typing.Generic):
                    if parent not in nm:
                        nm[parent] = f"{parent.__module__.rsplit('.', 1)[-1]}__{parent.__qualname__.replace('.', '_')}"
                        pending.append(parent)
                    pname = nm[parent]
                if is_abstract_cls(c):
                    classes.append({"name": nm[c], "kind": "abc", "parent": pname, "weight": None, "fields": []})
                    continue
                hints = typing.get_type_hints(c.__init__, globalns=vars(sys.modules[c.__module__]), include_extras=True) if "__init__" in vars(c) or hasattr(c, "__dataclass_fields__") else {}
                fields = [[k, convert_type(v, nm, pending)] for k, v in hints.items() if k != "return"]
                classes.append({"name": nm[c], "kind": "data" if hasattr(c, "__dataclass_fields__") else "plain", "parent": pname,
                                "weight": c.__dict__.get("__gengy__", {}).get("weight"), "fields": fields})
        except Unsupported as e:
            continue
        except Exception:
            continue
        considered = [nm[c] for c in local if not is_abstract_cls(c)]
        spec = {"classes": classes, "start": nm[root], "considered": considered, "expansion_depthing": False, "origin": f"{origin}:{root.__name__}"}
        out.append((spec, {v: k for k, v in nm.items() if any(cl["name"] == v for cl in classes)}))
    return out


def all_corpus_specs(repo):
    res = []
    skipped = []
    for name in CORPUS_MODULES + TEST_FILES:
        try:
            mod = load(name, repo)
        except BaseException as e:
            skipped.append((name, type(e).__name__))
            continue
        for spec, cls_by_name in specs_of_module(mod, name):
            res.append((spec, cls_by_name))
    # the grammars that are spread over several modules, taken together
    for group, prefix in (("geml.grammars.coding", "geml.grammars.coding."), ("geml.grammars", "geml.grammars.")):
        try:
            mods = [load(n, repo) for n in CORPUS_MODULES if n.startswith(prefix)]
            for spec, cls_by_name in specs_of_module(mods, group + ".*"):
                res.append((spec, cls_by_name))
        except BaseException as e:
            skipped.append((group, type(e).__name__))
    return res, skipped
