"""Batch runner: fan-out of seeded runs over processes, violation triage, shrinking, replay
files, evidence.  Exit codes: 0 property held on everything explored (known findings are
printed), 1 violation (with a VIOLATION line), 2 harness error (never 0, never VIOLATION).
"""
from __future__ import annotations

import faulthandler
import importlib
import json
import multiprocessing
import os
import signal
import subprocess
import sys
import time
import traceback
from collections import Counter
from concurrent.futures import ProcessPoolExecutor, as_completed

from .core import Ctx, HarnessError, Violation

VERIF = os.path.dirname(os.path.dirname(os.path.abspath(__file__)))
REPLAYS = os.path.join(VERIF, "replays")
EVIDENCE = os.environ.get("VERIF_EVIDENCE_DIR") or os.path.join(VERIF, "evidence")
if os.environ.get("VERIF_EVIDENCE_DIR"):
    REPLAYS = os.path.join(os.environ["VERIF_EVIDENCE_DIR"], "replays")
KNOWN = os.path.join(VERIF, "known_findings.json")


class RunTimeout(BaseException):
    pass


def _strict(o):
    """strict JSON: non-finite floats (samples may hold inf / nan fitness values) are written as strings"""
    if isinstance(o, float) and (o != o or o in (float("inf"), float("-inf"))):
        return repr(o)
    if isinstance(o, dict):
        return {str(k): _strict(v) for k, v in o.items()}
    if isinstance(o, (list, tuple)):
        return [_strict(v) for v in o]
    return o


def load_prop(pid: str):
    return importlib.import_module(f"sim.props.{pid.lower()}")


def _alarm(signum, frame):
    raise RunTimeout()


def execute_run(mod, pid, seed, run_index, tier, replay=None, params=None, timeout=60.0):
    """Execute one simulated run; returns the Ctx.  Harness exceptions propagate."""
    ctx = Ctx(pid, seed, run_index, tier, replay=replay, params=params)
    from . import spec as _spec

    _spec.reset_names()
    # the watchdog counts the run's own CPU time (a loaded machine must not turn a slow run into a harness error); a generous
    # real-time alarm stays as a backstop for a run that blocks without computing
    old = signal.signal(signal.SIGALRM, _alarm)
    oldv = signal.signal(signal.SIGVTALRM, _alarm)
    signal.setitimer(signal.ITIMER_VIRTUAL, timeout)
    signal.setitimer(signal.ITIMER_REAL, timeout * 10)
    try:
        mod.run(ctx)
    finally:
        signal.setitimer(signal.ITIMER_VIRTUAL, 0)
        signal.setitimer(signal.ITIMER_REAL, 0)
        signal.signal(signal.SIGALRM, old)
        signal.signal(signal.SIGVTALRM, oldv)
    return ctx


_WORKER = {}


def _worker_init(pid, tier, params):
    faulthandler.enable()
    mod = load_prop(pid)
    if hasattr(mod, "setup"):
        mod.setup(tier, params)
    _WORKER["mod"] = mod


def _worker_chunk(args):
    pid, seed, tier, params, indices, timeout = args
    mod = _WORKER["mod"]
    out = {
        "n": 0, "digests": [], "nontrivial": [], "faults": Counter(), "stats": Counter(), "violations": [],
        "errors": [], "samples": [], "sim_ns": 0, "shapes": set(), "events": 0,
    }
    for ri in indices:
        try:
            ctx = execute_run(mod, pid, seed, ri, tier, params=params, timeout=timeout)
        except RunTimeout:
            out["errors"].append({"run_index": ri, "error": "run exceeded wall timeout (harness watchdog)"})
            continue
        except RecursionError:
            # a program nested deeper than the interpreter's recursion limit allows the REFERENCE to walk (the library's own
            # RecursionErrors are caught and classified inside the run): abandoned like a run that exhausts the watchdog
            out["errors"].append({"run_index": ri, "error": "run abandoned: the reference hit the recursion limit on a very deep program (harness watchdog)"})
            continue
        except BaseException as e:  # harness bug: report, never a violation
            out["errors"].append({"run_index": ri, "error": "".join(traceback.format_exception(e))[-3000:]})
            continue
        out["n"] += 1
        d = ctx.digest()[:16]
        out["digests"].append(d)
        if ctx.nontrivial:
            out["nontrivial"].append(d)
        out["faults"].update(ctx.faults)
        out["stats"].update(ctx.stats)
        out["sim_ns"] += ctx.sim_ns
        out["events"] += ctx.n_events
        if ctx.shape is not None:
            out["shapes"].add(ctx.shape)
        for v in ctx.violations:
            out["violations"].append(v.to_json())
        if ctx.sample is not None and len(out["samples"]) < 2:
            out["samples"].append({"run_index": ri, **ctx.sample})
    return out


def load_known():
    if not os.path.exists(KNOWN):
        return []
    with open(KNOWN) as f:
        return json.load(f)["findings"]


def match_known(known, pid, sig):
    for k in known:
        if k.get("status") != "open" or k["property"] != pid:
            continue
        pat = k["signature"]
        if pat == sig or (pat.endswith("*") and sig.startswith(pat[:-1])):
            return k
    return None


# ---------------------------------------------------------------- shrinking

def _has_sig(mod, pid, seed, ri, tier, params, rec, sig, timeout):
    try:
        ctx = execute_run(mod, pid, seed, ri, tier, replay=rec, params=params, timeout=timeout)
    except BaseException:
        return None
    for v in ctx.violations:
        if v.sig == sig:
            return ctx
    return None


def shrink(mod, pid, seed, ri, tier, params, rec, sig, timeout, max_execs=300, max_wall=60.0):
    t0 = time.monotonic()
    execs = [0]
    best = {k: list(v) for k, v in rec.items()}

    def attempt(cand):
        if execs[0] >= max_execs or time.monotonic() - t0 > max_wall:
            return False
        execs[0] += 1
        ctx = _has_sig(mod, pid, seed, ri, tier, params, cand, sig, timeout)
        if ctx is None:
            return False
        nonlocal best
        best = ctx.recording()
        return True

    for _round in range(3):
        before = json.dumps(best)
        for s in ("H", "S", "R"):
            # 1. truncate
            n = len(best[s])
            cut = n // 2
            while cut >= 1 and len(best[s]) > 0:
                cand = dict(best)
                cand[s] = best[s][: max(0, len(best[s]) - cut)]
                if not attempt(cand):
                    cut //= 2
            # 2. delete chunks
            for size in (16, 8, 4, 2, 1):
                i = 0
                while i + size <= len(best[s]):
                    cand = dict(best)
                    cand[s] = best[s][:i] + best[s][i + size:]
                    if not attempt(cand):
                        i += size
                if execs[0] >= max_execs:
                    break
            # 3. zero / halve
            for size in (8, 1):
                i = 0
                while i < len(best[s]):
                    seg = best[s][i:i + size]
                    if any(seg):
                        cand = dict(best)
                        cand[s] = best[s][:i] + [0] * len(seg) + best[s][i + size:]
                        if not attempt(cand) and size == 1 and seg[0] > 1:
                            cand = dict(best)
                            cand[s] = best[s][:i] + [seg[0] // 2] + best[s][i + 1:]
                            attempt(cand)
                    i += size
                if execs[0] >= max_execs:
                    break
        if json.dumps(best) == before or execs[0] >= max_execs or time.monotonic() - t0 > max_wall:
            break
    return best, execs[0]


def write_replay(pid, seed, ri, tier, params, rec, sig, msg, ctx, shrunk, tag=""):
    os.makedirs(REPLAYS, exist_ok=True)
    safe = "".join(c if c.isalnum() else "-" for c in sig)[:80]
    path = os.path.join(REPLAYS, f"{pid}-{seed}-{ri}-{safe}{tag}.json")
    doc = {
        "format": 1, "property": pid, "signature": sig, "message": msg, "seed": seed, "run_index": ri,
        "tier": tier, "params": params, "choices": rec, "shrunk": shrunk,
        "digest": ctx.digest() if ctx else None,
        "tail": list(ctx.tail) if ctx else [],
        "rendering": ctx.sample if ctx else None,
        "choice_counts": {k: len(v) for k, v in rec.items()},
    }
    with open(path, "w") as f:
        json.dump(_strict(doc), f, indent=1, default=str, allow_nan=False)
    return path


def replay_file(path, quiet=False):
    with open(path) as f:
        doc = json.load(f)
    pid = doc["property"]
    mod = load_prop(pid)
    if hasattr(mod, "setup"):
        mod.setup(doc["tier"], doc.get("params") or {})
    ctx = execute_run(mod, pid, doc["seed"], doc["run_index"], doc["tier"], replay=doc["choices"],
                      params=doc.get("params") or {}, timeout=120)
    sigs = [v.sig for v in ctx.violations]
    ok = doc["signature"] in sigs
    if not quiet:
        print(f"replay {path}: digest={ctx.digest()} expected={doc.get('digest')}")
        for v in ctx.violations:
            print(f"  violation {v.sig}: {v.msg}")
        for line in ctx.tail:
            print("   |", line)
    if ok:
        print(f"VIOLATION property={pid} replay={path}")
        return 1, ctx
    print(f"replay did not reproduce signature {doc['signature']}")
    return 0, ctx


def verify_replay_fresh(path, sig):
    """Replay in a fresh interpreter with a different hash seed; must reproduce."""
    env = dict(os.environ)
    env["PYTHONHASHSEED"] = "12345"
    p = subprocess.run([sys.executable, "-B", os.path.join(VERIF, "sim", "main.py"), "replay", path],
                       capture_output=True, text=True, env=env, timeout=300)
    return p.returncode == 1 and "VIOLATION property=" in p.stdout


# ---------------------------------------------------------------- evidence

def validate_evidence(doc):
    req = ["property_id", "tier", "seed", "level", "coverage", "wall_s"]
    for k in req:
        if k not in doc:
            raise HarnessError(f"evidence lacks {k}")
    if doc["tier"] not in ("quick", "thorough"):
        raise HarnessError("bad tier")
    if not isinstance(doc["seed"], int):
        raise HarnessError("seed")
    cov = doc["coverage"]
    if doc["level"] in ("exploration", "fault_enumeration"):
        if not (isinstance(cov.get("evaluations"), int) and cov["evaluations"] >= 1):
            raise HarnessError("evaluations")
        if not (isinstance(cov.get("distinct_nontrivial"), int) and cov["distinct_nontrivial"] >= 2):
            raise HarnessError("distinct_nontrivial < 2")
        if not isinstance(cov.get("rule"), str):
            raise HarnessError("rule")
        if not (isinstance(cov.get("samples"), list) and len(cov["samples"]) >= 1):
            raise HarnessError("samples")
    schema = "/root/.vp/EVIDENCE.schema.json"
    try:
        import jsonschema  # only in the tooling venv; optional
        with open(schema) as f:
            jsonschema.validate(doc, json.load(f))
    except ImportError:
        pass


# ---------------------------------------------------------------- main entry

def run_check(pid: str, tier: str) -> int:
    t0 = time.monotonic()
    seed = int(os.environ.get("VERIF_SEED", "0"))
    jobs = int(os.environ.get("VERIF_JOBS", str(os.cpu_count() or 4)))
    mod = load_prop(pid)
    budget = mod.budget(tier)
    runs = int(os.environ.get("VERIF_RUNS", budget["runs"]))
    params = budget.get("params", {})
    timeout = float(budget.get("run_timeout", 60.0))
    max_wall = float(os.environ.get("VERIF_MAX_WALL", budget.get("max_wall", 240 if tier == "quick" else 1500)))
    print(f"[{pid}] tier={tier} VERIF_SEED={seed} runs={runs} jobs={jobs} repo={os.environ.get('VERIF_REPO', '/repo')}", flush=True)

    directed = list(mod.directed(tier)) if hasattr(mod, "directed") else []
    chunk = max(1, min(200, runs // (jobs * 6) or 1))
    chunks = [list(range(i, min(runs, i + chunk))) for i in range(0, runs, chunk)]
    agg = {"n": 0, "digests": set(), "nontrivial": set(), "faults": Counter(), "stats": Counter(), "violations": [],
           "errors": [], "samples": [], "sim_ns": 0, "shapes": set(), "events": 0}
    truncated = False
    mp = multiprocessing.get_context("fork")
    with ProcessPoolExecutor(max_workers=jobs, mp_context=mp, initializer=_worker_init, initargs=(pid, tier, params)) as ex:
        futs = [ex.submit(_worker_chunk, (pid, seed, tier, params, c, timeout)) for c in chunks]
        try:
            for f in as_completed(futs, timeout=max_wall):
                r = f.result()
                agg["n"] += r["n"]
                agg["digests"].update(r["digests"])
                agg["nontrivial"].update(r["nontrivial"])
                agg["faults"].update(r["faults"])
                agg["stats"].update(r["stats"])
                agg["violations"].extend(r["violations"])
                agg["errors"].extend(r["errors"])
                agg["sim_ns"] += r["sim_ns"]
                agg["events"] += r["events"]
                agg["shapes"].update(r["shapes"])
                if len(agg["samples"]) < 3:
                    agg["samples"].extend(r["samples"][: 3 - len(agg["samples"])])
        except TimeoutError:
            truncated = True
            for f in futs:
                f.cancel()
            ex.shutdown(wait=False, cancel_futures=True)
            for p in list((getattr(ex, "_processes", None) or {}).values()):
                try:
                    p.terminate()
                except Exception:
                    pass
    # directed / corpus runs happen in-process (they are few)
    if hasattr(mod, "setup"):
        mod.setup(tier, params)
    n_directed = 0
    for d in directed:
        try:
            ctx = execute_run(mod, pid, d.get("seed", seed), d["run_index"], tier, replay=d.get("choices"), params={**params, **d.get("params", {})}, timeout=timeout)
        except BaseException as e:
            agg["errors"].append({"run_index": d["run_index"], "error": "directed: " + "".join(traceback.format_exception(e))[-3000:]})
            continue
        n_directed += 1
        agg["n"] += 1
        agg["digests"].add(ctx.digest()[:16])
        if ctx.nontrivial:
            agg["nontrivial"].add(ctx.digest()[:16])
        agg["faults"].update(ctx.faults)
        agg["stats"].update(ctx.stats)
        for v in ctx.violations:
            j = v.to_json()
            j["directed"] = d
            agg["violations"].append(j)

    wall_runs = time.monotonic() - t0
    known = load_known()
    by_sig: dict[str, list] = {}
    for v in agg["violations"]:
        by_sig.setdefault(v["sig"], []).append(v)
    exit_code = 0
    known_seen = {}
    new_sigs = []
    for sig, vs in sorted(by_sig.items()):
        k = match_known(known, pid, sig)
        if k is not None:
            known_seen.setdefault(k["signature"], [k, 0])
            known_seen[k["signature"]][1] += len(vs)
        else:
            new_sigs.append(sig)
    # one line per LISTED open finding of this property (observed in this batch or not)
    for k in known:
        if k.get("status") == "open" and k["property"] == pid:
            cnt = known_seen.get(k["signature"], (k, 0))[1]
            print(f"KNOWN-FINDING: property={pid} {k['what']} [signature={k['signature']} occurrences-in-this-run={cnt}]")
    replay_paths = []
    for i, sig in enumerate(new_sigs):
        vs = by_sig[sig]
        v = min(vs, key=lambda x: (("directed" in x), x["run_index"]))
        ri = v["run_index"]
        d = v.get("directed")
        rparams = {**params, **(d.get("params", {}) if d else {})}
        rseed = d.get("seed", seed) if d else seed
        try:
            ctx = execute_run(mod, pid, rseed, ri, tier, replay=(d.get("choices") if d else None), params=rparams, timeout=timeout)
            rec = ctx.recording()
            path = write_replay(pid, rseed, ri, tier, rparams, rec, sig, v["msg"], ctx, False)
            if i < 3:
                srec, n_exec = shrink(mod, pid, rseed, ri, tier, rparams, rec, sig, timeout,
                                      max_execs=300 if tier == "thorough" else 120, max_wall=45 if tier == "thorough" else 12)
                sctx = _has_sig(mod, pid, rseed, ri, tier, rparams, srec, sig, timeout)
                if sctx is not None:
                    spath = write_replay(pid, rseed, ri, tier, rparams, sctx.recording(), sig, v["msg"], sctx, True, tag="-min")
                    if verify_replay_fresh(spath, sig):
                        path = spath
                    else:
                        print(f"[{pid}] note: minimised replay did not reproduce in a fresh interpreter; keeping the unshrunk recording")
            if not verify_replay_fresh(path, sig) and path.endswith(".json") and not path.endswith("-min.json"):
                print(f"[{pid}] WARNING: replay {path} did not reproduce in a fresh interpreter (harness nondeterminism?)")
        except BaseException as e:
            path = os.path.join(REPLAYS, f"{pid}-{seed}-{ri}-unreplayable.json")
            os.makedirs(REPLAYS, exist_ok=True)
            with open(path, "w") as f:
                json.dump({"property": pid, "signature": sig, "message": v["msg"], "seed": seed, "run_index": ri, "error": repr(e)}, f)
        replay_paths.append(path)
        print(f"[{pid}] violation signature={sig} runs={len(vs)}: {v['msg'][:600]}")
        print(f"VIOLATION property={pid} replay={path}")
        exit_code = 1

    wall = time.monotonic() - t0
    if not agg["samples"]:
        agg["samples"] = [{"note": "no sample rendered"}]
    dn = len(agg["nontrivial"])
    cov = {
        "evaluations": agg["n"],
        "distinct_nontrivial": dn,
        "rule": getattr(mod, "RULE", ""),
        "samples": agg["samples"],
        "distinct_run_digests": len(agg["digests"]),
        "directed_runs": n_directed,
        "faults_fired": dict(sorted(agg["faults"].items())),
        "stats": dict(sorted(agg["stats"].items())),
        "seam_events": agg["events"],
        "simulated_seconds": agg["sim_ns"] / 1e9,
        "runs_per_hour": int(agg["n"] / wall_runs * 3600) if wall_runs > 0 else 0,
        "seeds_per_hour": int(3600 / wall) if wall > 0 else 0,
        "states_measure": getattr(mod, "STATES_MEASURE", "distinct run digests"),
        "states": len(agg["shapes"]) if agg["shapes"] else len(agg["digests"]),
        "components_real": getattr(mod, "COMPONENTS_REAL", []),
        "components_stub": getattr(mod, "COMPONENTS_STUB", []),
        "known_findings_seen": {k: c for k, (_, c) in known_seen.items()},
        "violation_signatures": new_sigs,
        "harness_errors": len([e for e in agg["errors"] if "harness watchdog" not in e["error"]]),
        "runs_abandoned_by_watchdog": len([e for e in agg["errors"] if "harness watchdog" in e["error"]]),
        "truncated_by_wall_cap": truncated,
        "jobs": jobs,
        "exhaustive": False,
    }
    doc = {
        "property_id": pid, "tier": tier, "seed": seed, "level": getattr(mod, "LEVEL", "exploration"),
        "coverage": cov, "assumptions": getattr(mod, "ASSUMPTIONS", []), "wall_s": round(wall, 2),
        "violations": len(new_sigs),
    }
    os.makedirs(EVIDENCE, exist_ok=True)
    ev_err = None
    try:
        validate_evidence(doc)
    except HarnessError as e:
        ev_err = e
    with open(os.path.join(EVIDENCE, f"{pid}.json"), "w") as f:
        json.dump(_strict(doc), f, indent=1, default=str, allow_nan=False)
    print(f"[{pid}] runs={agg['n']} distinct={len(agg['digests'])} nontrivial={dn} faults={dict(agg['faults'])} "
          f"known={len(known_seen)} new_violations={len(new_sigs)} errors={len([e for e in agg['errors'] if 'harness watchdog' not in e['error']])} "
          f"abandoned={len([e for e in agg['errors'] if 'harness watchdog' in e['error']])} wall={wall:.1f}s", flush=True)
    # A run that exhausts the watchdog's CPU allowance is abandoned, not judged: the operations themselves are bounded by
    # deterministic caps (random draws, gene reads), so such a run is a huge but finite computation.  A handful per check is
    # reported and tolerated; more than that (or any other harness exception) makes the check fail as a harness error.
    abandoned = [e for e in agg["errors"] if "harness watchdog" in e["error"]]
    other = [e for e in agg["errors"] if "harness watchdog" not in e["error"]]
    allowed = max(3, agg["n"] // 5000)
    if abandoned:
        print(f"[{pid}] {len(abandoned)} run(s) abandoned by the watchdog (CPU allowance {timeout:.0f}s per run; up to {allowed} tolerated) "
              f"at run indices {[e['run_index'] for e in abandoned][:10]}", file=sys.stderr)
    if other or len(abandoned) > allowed:
        bad = other or abandoned
        print(f"[{pid}] HARNESS ERRORS ({len(bad)}) at run indices {[e['run_index'] for e in bad][:10]}, first:", file=sys.stderr)
        print(bad[0]["error"], file=sys.stderr)
        if exit_code == 0:
            return 2
    if ev_err is not None and exit_code == 0:
        print(f"[{pid}] evidence invalid: {ev_err}", file=sys.stderr)
        return 2
    return exit_code
