"""Search-level helpers shared by C09, C12-C17: generated step trees, problems with scripted
or structural fitness, invocation logs, fake (integer) representations."""
from __future__ import annotations

import hashlib

from .ref import canon


# ---------------------------------------------------------------- steps

def gen_step(H, depth=0, max_depth=3, multi=False, allow=("elitism", "novelty", "tournament", "mutation", "crossover", "identity", "lexicase"), repeat=False):
    """a JSON-able description of a step tree over the built-in steps; repeat: a combinator may list one sub-step twice"""
    leaves = [a for a in allow if a != "lexicase" or multi]
    if depth >= max_depth or H.draw(3) == 0:
        k = H.pick(leaves)
        if k == "tournament":
            return ["tournament", 1 + H.draw(6), bool(H.draw(2))]
        if k == "mutation":
            return ["mutation", H.pick([0.0, 0.5, 0.9, 1.0])]
        if k == "crossover":
            return ["crossover", H.pick([0.0, 0.5, 1.0])]
        if k == "lexicase":
            return ["lexicase", bool(H.draw(2))]
        return [k]
    k = H.weighted([("sequence", 3), ("parallel", 4), ("exclusive", 2)])
    n = 1 + H.draw(3)
    subs = [gen_step(H, depth + 1, max_depth, multi, allow, repeat) for _ in range(n)]
    if repeat and H.draw(3) == 0:
        subs.insert(H.draw(len(subs) + 1), subs[H.draw(len(subs))])
    if k == "sequence":
        return ["sequence", subs]
    weights = [H.pick([0, 1, 1, 2, 3, 5, 7, 90]) for _ in subs]
    if not any(weights):
        weights[H.draw(len(weights))] = 1
    return [k, subs, weights]


def build_step(desc, share=None):
    """share: a dict -> sub-steps with identical descriptions are ONE step object used at several positions of the pipeline"""
    if desc[0] in ("sequence", "parallel", "exclusive"):
        return _build_combinator(desc, share)
    if share is None:
        return _build_leaf(desc)
    key = repr(desc)
    if key not in share:
        share[key] = _build_leaf(desc)
    return share[key]


def _build_combinator(desc, share):
    from geneticengine.algorithms.gp.operators.combinators import ExclusiveParallelStep, ParallelStep, SequenceStep

    k = desc[0]
    subs = [build_step(d, share) for d in desc[1]]
    if k == "sequence":
        return SequenceStep(*subs)
    if k == "parallel":
        return ParallelStep(subs, weights=list(desc[2]))
    return ExclusiveParallelStep(subs, weights=list(desc[2]))


def _build_leaf(desc):
    from geneticengine.algorithms.gp.operators.combinators import ExclusiveParallelStep, IdentityStep, ParallelStep, SequenceStep
    from geneticengine.algorithms.gp.operators.crossover import GenericCrossoverStep
    from geneticengine.algorithms.gp.operators.elitism import ElitismStep
    from geneticengine.algorithms.gp.operators.mutation import GenericMutationStep
    from geneticengine.algorithms.gp.operators.novelty import NoveltyStep
    from geneticengine.algorithms.gp.operators.selection import LexicaseSelection, TournamentSelection

    k = desc[0]
    if k == "elitism":
        return ElitismStep()
    if k == "novelty":
        return NoveltyStep()
    if k == "identity":
        return IdentityStep()
    if k == "evaluate":
        from geneticengine.algorithms.gp.operators.evaluation import EvaluateStep

        return EvaluateStep()
    if k == "tournament":
        return TournamentSelection(desc[1], with_replacement=desc[2])
    if k == "lexicase":
        return LexicaseSelection(epsilon=desc[1])
    if k == "mutation":
        return GenericMutationStep(desc[1])
    if k == "crossover":
        return GenericCrossoverStep(desc[1])
    raise ValueError(k)


def step_kinds(desc, out=None):
    out = [] if out is None else out
    out.append(desc[0])
    if desc[0] in ("sequence", "parallel", "exclusive"):
        for d in desc[1]:
            step_kinds(d, out)
    return out


# ---------------------------------------------------------------- fake representation (integers)

from geneticengine.representations.api import Representation, RepresentationWithCrossover, RepresentationWithMutation


class IntRep(Representation, RepresentationWithMutation, RepresentationWithCrossover):
    """A tiny real implementation of the representation API over integers: cheap individuals
    for step-level checks.  Programs are IntProg objects (so fitness sees a 'program')."""

    def __init__(self, lossy_str=False):
        self.created = 0
        self.lossy_str = lossy_str

    def create_genotype(self, random, **kwargs):
        self.created += 1
        return random.randint(0, 10**6)

    def genotype_to_phenotype(self, g):
        return LossyIntProg(g) if self.lossy_str else IntProg(g)

    def mutate(self, random, genotype, **kwargs):
        return genotype + random.randint(1, 1000)

    def crossover(self, random, parent1, parent2, **kwargs):
        return (parent1 * 3 + parent2) % (10**6 + 3), (parent2 * 3 + parent1) % (10**6 + 3)


def make_intrep(lossy_str=False):
    """lossy_str: programs whose printed form does not tell them apart (e.g. infix printing without parentheses)"""
    return IntRep(lossy_str)


class IntProg:
    __slots__ = ("v",)

    def __init__(self, v):
        self.v = v

    def __repr__(self):
        return f"P{self.v}"


class LossyIntProg(IntProg):
    __slots__ = ()

    def __str__(self):
        return f"P{self.v % 3}"


def structural_hash(c) -> int:
    return int.from_bytes(hashlib.sha256(repr(c).encode()).digest()[:6], "big")


# ---------------------------------------------------------------- individuals

def individual_snapshot(ind, rep_kind, ref, problems):
    """(genotype snapshot, phenotype snapshot or None, {problem tag: (aggregate, components)})"""
    from .snap import genotype_snapshot, node_snapshot

    if rep_kind == "int":
        g = ("int", ind.genotype)
        ph = None if ind.phenotype is None else ("P", ind.phenotype.v)
    else:
        g = genotype_snapshot(ind.genotype, rep_kind, ref)
        ph = None if ind.phenotype is None else node_snapshot(ind.phenotype, ref)
    fit = {}
    for tag, p in problems:
        if ind.has_fitness(p):
            f = ind.get_fitness(p)
            fit[tag] = (repr(f.maximizing_aggregate), tuple(repr(x) for x in f.fitness_components))
    return (g, ph, fit)


def snapshot_violation(before, after):
    """None if `after` is an allowed evolution of `before` (caches may be added, never changed)"""
    if before[0] != after[0]:
        if not _dsge_extension(before[0], after[0]):
            return "genotype-changed"
        if before[1] is not None:
            # the individual had been mapped already (phenotype cached): nothing maps it again, so an extension of
            # its gene lists can only have come through a list shared with another genotype
            return "genotype-extended-through-shared-gene-list"
    if before[1] is not None and before[1] != after[1]:
        return "cached-phenotype-changed"
    for tag, f in before[2].items():
        if after[2].get(tag) != f:
            return "cached-fitness-changed"
    return None


def _dsge_extension(b, a):
    """dynamic SGE may extend a genotype on demand (C07 permits exactly this): every old gene
    list must be a prefix of the new one; new keys may appear"""
    if not (isinstance(b, tuple) and isinstance(a, tuple) and b and a and b[0] == "dna-dsge" and a[0] == "dna-dsge"):
        return False
    new = dict(a[1])
    for k, genes in b[1]:
        if k not in new or new[k][: len(genes)] != genes:
            return False
    return True
