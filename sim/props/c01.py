"""C01 -- every program the library produces is well-typed for its grammar.

Simulated: N1 (all random-source implementations, boundary draws F3), N6 (SynthesisException
F1, gene exhaustion F2), N7 (operation sequences on a shared pool).  Oracle: reference type
checker over the grammar *specification*; exception-type classifier; fully-built test.
"""
from __future__ import annotations

from ..spec import features
from ..world import SynthWorld, render_value

ID = "C01"
LEVEL = "exploration"
RULE = ("one run = one generated grammar (abstract layers, dataclass and plain productions, base types, lists, "
        "annotated lists, tuples, unions, refinements) x one of the five representations x a decider x a depth offset "
        "x a random-source policy (uniform, edge-biased, constant lo/hi, the shipped Mersenne source) x a seeded "
        "sequence of create/map/mutate/crossover operations on a shared genotype pool; every new genotype's "
        "program is checked field by field against the specification; non-trivial = at least one program was "
        "produced and checked; distinct = distinct event-log digests")
COMPONENTS_REAL = ["geneticengine.grammar.*", "geneticengine.representations.* (tree, ge, sge, dsge, stack)",
                   "geneticengine.random.sources (derived primitives)", "geneticengine.solutions.tree"]
COMPONENTS_STUB = ["RandomSource.randint/random_float (SimRandom, stream R)", "set iteration order of Grammar symbol sets (OrderedSimSet)"]
ASSUMPTIONS = ["library error types are GeneticEngineError, SynthesisException, InvalidGrammarException",
               "typing is judged against the generated specification, exact base types (True is not an int)"]

FEAT = features(tuple=2, union=2, list=2, annlist=3, flaky=1, dependent=1, interval=1, concrete_start=1, nested_generic=1, nested_list=1, self_ref=1, deep_chain=1, multi_dependent=1, falsy=1, future_annotations=1, hollow=1, inherited_ctor=1, union_generic=1, shared_handlers=1)


def budget(tier):
    if tier == "thorough":
        return {"runs": 150000, "run_timeout": 120, "max_wall": 1500}
    return {"runs": 9000, "run_timeout": 60, "max_wall": 200}


def check_program(ctx, w, p, how):
    c = w.ref.conforms(p, w.start_type())
    ctx.stat("programs_checked")
    if c is not None:
        cause, path = c
        ctx.violate(f"C01/typed/{w.rep_kind}/{cause}",
                    f"{how} on representation {w.rep_kind} produced an ill-typed program: {cause} at {path}; "
                    f"program={render_value(p, w.ref)}")
        return False
    return True


def search_stratum(ctx, w):
    """the property's second observation point: the argument received by the user's fitness function during a search"""
    from geneticengine.algorithms.gp.gp import GeneticProgramming
    from geneticengine.algorithms.hill_climbing import HC
    from geneticengine.algorithms.one_plus_one import OnePlusOne
    from geneticengine.algorithms.random_search import RandomSearch
    from geneticengine.evaluation.budget import AnyOf, EvaluationBudget, SearchBudget
    from geneticengine.problems import SingleObjectiveProblem
    from ..world import OpResult

    H = ctx.H
    seen = [0]

    def ff(p):
        seen[0] += 1
        check_program(ctx, w, p, "search-argument")
        return float(seen[0] % 7)

    class Checks(SearchBudget):
        def __init__(self):
            self.n = 0

        def is_done(self, tracker):
            self.n += 1
            return self.n > 40

    algo = H.pick([RandomSearch, HC, OnePlusOne, GeneticProgramming])
    kw = {"population_size": 2 + H.draw(5)} if algo is GeneticProgramming else {}
    res = OpResult("search")

    def go():
        return algo(problem=SingleObjectiveProblem(ff, minimize=bool(H.draw(2))), budget=AnyOf(EvaluationBudget(6 + H.draw(20)), Checks()),
                    representation=w.rep, random=w.random, **kw).search()

    w.install_flaky()
    best = w.guarded(res, go)
    ctx.stat("searches")
    if res.foreign:
        ctx.violate(f"C01/error-type/{site_of(w, res)}/{res.foreign}", f"{algo.__name__} search on {w.rep_kind} let a foreign exception escape: {res.tb}")
    elif res.ok and best is not None:
        try:
            check_program(ctx, w, best.get_phenotype(), "search-result")
        except Exception:
            pass
    if seen[0]:
        ctx.nontrivial = True


def site_of(w, res):
    """component under test for an escaping exception; unbounded recursion is attributed to the decider that drives it"""
    if res.foreign and res.foreign.startswith("RecursionError") and w.rep_kind in ("tree", "ge", "sge"):
        return f"{w.decider_kind}-decider"
    if res.foreign and res.foreign.startswith("NotImplementedError@dependent.validate") and w.rep_kind == "stack":
        # the known finding exists only where the stack machine validates refinements, i.e. in modules with string annotations
        string_mode = bool(w.spec.get("future_annotations")) or getattr(w, "is_corpus", False)
        return "stack/string-annotations" if string_mode else "stack/real-annotations"
    return w.rep_kind


def directed(tier):
    """the shipped grammars (geml.grammars) and the hierarchies of the test-suite under seeded configurations"""
    from ..world import corpus_directed

    return corpus_directed(tier)


def run(ctx):
    H = ctx.H
    is_corpus = ctx.params.get("corpus") is not None
    if is_corpus:
        from ..world import corpus_world

        w = corpus_world(ctx, ctx.params["corpus"], FEAT)
    else:
        w = SynthWorld(ctx, feat=FEAT)
    try:
        ctx.sample = w.describe()
        r = w.extract()
        if not r.ok:
            if r.foreign and not is_corpus:
                ctx.violate(f"C01/error-type/extract/{r.foreign}", f"extract_grammar raised a foreign exception {r.foreign}")
            return
        r = w.construct()
        ctx.sample = w.describe()
        if not r.ok:
            if r.foreign:
                ctx.violate(f"C01/error-type/construct:{w.rep_kind}/{r.foreign}", f"constructing decider/representation raised {r.foreign}")
            return
        n_ops = 1 + H.draw(12 if ctx.tier == "quick" else 40)
        ops = []
        redeclare_at = H.draw(n_ops) if (H.draw(4) == 3 and not is_corpus) else -1
        for step_i in range(n_ops):
            if step_i == redeclare_at:
                rr = w.op_redeclare()
                ops.append(("redeclare", "ok" if rr.ok else rr.error))
                if rr.foreign:
                    ctx.violate(f"C01/error-type/redeclare/{rr.foreign}", f"re-declaring a field type and extracting again raised {rr.tb}")
                if not rr.ok and w.rep is None:
                    break
                ctx.sample = {**w.describe(), "ops": ops}
            res = w.random_op()
            ops.append((res.kind,) + tuple(res.args) + (("ok",) if res.ok else (res.error,)))
            if res.foreign:
                ctx.violate(f"C01/error-type/{site_of(w, res)}/{res.foreign}",
                            f"{res.kind} on {w.rep_kind} let a foreign exception escape: {res.tb}")
                continue
            if res.kind == "map" and res.ok:
                check_program(ctx, w, res.phenotype, "map")
                ctx.nontrivial = True
            if res.kind == "map" and res.error == "step-cap" and w.rep_kind == "stack":
                ctx.violate("C01/liveness/stack/mapping-does-not-return",
                            f"mapping a stack genotype read more than {w.gene_read_cap} genes without returning a program or failing "
                            f"(gene_length={max(w.gene_length, 4)}, failures_limit={w.failures_limit})")
            for idx in res.new:
                if w.rep_kind == "tree":
                    check_program(ctx, w, w.pool[idx], res.kind)
                    ctx.nontrivial = True
                else:
                    m = w.op_map(idx)
                    if m.foreign:
                        ctx.violate(f"C01/error-type/{site_of(w, m)}/{m.foreign}",
                                    f"mapping a genotype obtained by {res.kind} let a foreign exception escape: {m.tb}")
                    elif m.ok:
                        check_program(ctx, w, m.phenotype, f"{res.kind}+map")
                        ctx.nontrivial = True
                    elif m.error == "step-cap" and w.rep_kind == "stack":
                        ctx.violate("C01/liveness/stack/mapping-does-not-return",
                                    f"mapping a stack genotype obtained by {res.kind} read more than {w.gene_read_cap} genes without returning a "
                                    f"program or failing (gene_length={max(w.gene_length, 4)}, failures_limit={w.failures_limit})")
        ctx.sample["ops"] = ops[:20]
        if H.draw(3) == 2:
            search_stratum(ctx, w)
    finally:
        w.dispose()
