"""C18 -- random primitives honour their contracts for every random source.

Simulated: the base source (N1: the simulator answers randint/random_float under every policy,
incl. boundary draws F3, and under *scripted sweeps* of the base draw, which replace statistics
by deterministic error bounds) and all genotype-backed sources over arbitrary gene lists.  The
code under test is the library's derived primitives and its gene-reducing sources.
"""
from __future__ import annotations

import itertools
import math
import sys

from geneticengine.random.sources import NativeRandomSource, RandomSource

from ..seams import SimRandom, install_set_order
from ..spec import Built

ID = "C18"
LEVEL = "exploration"
RULE = ("one run = one primitive (randint, random_float, choice, choice_weighted, shuffle, pop_random, random_bool, normalvariate, "
        "BaseDecider.random_int, DynamicSGEDecider.random_int, equal-seed streams) x one source implementation (simulated base "
        "source under a policy or a scripted sweep of every possible draw for small ranges; NativeRandomSource; GE ListWrapper; SGE "
        "StructuredListWrapper; stack ListWrapper over seeded gene lists of length 1..64 with boundary-rich content) x boundary-rich "
        "arguments (negative, equal, wider than 1000, +-sys.maxsize; zero weights first, last, all but one); non-trivial = the "
        "arguments were not the trivial single-option case; distinct = distinct event-log digests")
COMPONENTS_REAL = ["geneticengine.random.sources.RandomSource (choice, choice_weighted, shuffle, pop_random, random_bool, normalvariate)",
                   "geneticengine.random.sources.NativeRandomSource", "ge.ListWrapper", "structured_ge.StructuredListWrapper", "stackgggp.ListWrapper",
                   "initializations.BaseDecider.random_int", "dynamic_structured_ge.DynamicSGEDecider.random_int"]
COMPONENTS_STUB = ["RandomSource.randint/random_float of the base source (SimRandom / scripted sweep)"]
ASSUMPTIONS = ["gene lists are non-empty", "weights are non-negative with at least one positive entry",
               "proportionality is judged by a sweep of the base draw over its whole range (exact) or a stratified grid (error bound 3/points + 2e-5 per option)"]


def budget(tier):
    if tier == "thorough":
        return {"runs": 400000, "run_timeout": 120, "max_wall": 1500}
    return {"runs": 24000, "run_timeout": 60, "max_wall": 200}


class Box:
    """distinct objects that compare equal when their values are equal: identity matters for pop_random / choice"""

    __slots__ = ("v",)

    def __init__(self, v):
        self.v = v

    def __eq__(self, other):
        return isinstance(other, Box) and other.v == self.v

    def __hash__(self):
        return hash(self.v)

    def __repr__(self):
        return f"Box({self.v})"


class Scripted(RandomSource):
    """base source answering randint from a script (clipped into the requested range)"""

    def __init__(self, values):
        self.values = list(values)
        self.pos = 0
        self.requests = []

    def randint(self, min, max):
        v = self.values[self.pos % len(self.values)]
        self.pos += 1
        self.requests.append((min, max))
        return min if v < min else max if v > max else v

    def random_float(self, min, max):
        v = self.values[self.pos % len(self.values)]
        self.pos += 1
        return min + (max - min) * v


BOUNDS = [(0, 0), (5, 5), (-3, -3), (0, 1), (-1, 1), (0, 9), (-10, -2), (0, 1000), (0, 1001), (-2000, 3000), (0, 10**6),
          (-sys.maxsize, sys.maxsize), (0, sys.maxsize), (-(sys.maxsize - 1), sys.maxsize), (sys.maxsize - 3, sys.maxsize), (-sys.maxsize, -sys.maxsize + 2),
          (1, sys.maxsize), (32, 128), (0, 10), (0, 2), (0, 255), (100, 101),
          # wider than one machine word / widths that are not a power of two
          (-1, sys.maxsize), (-1000, sys.maxsize), (0, 10**19), (-2**62, sys.maxsize), (-sys.maxsize - 1, sys.maxsize), (0, 3 * 2**62), (0, 2**64), (5, 2**100 + 17)]
GENES = [0, 1, 2, 3, 7, 255, 256, 1023, 1024, 10**6, sys.maxsize, sys.maxsize - 1, -1, -5, 2**31, 2**32 + 1]


def gene_list(H):
    n = 1 + H.draw(H.pick([1, 2, 8, 64]))
    return [H.pick(GENES) if H.draw(3) else H.draw(sys.maxsize) for _ in range(n)]


_DSGE = {}


def dsge_source(ctx, H):
    """dynamic SGE's metahandler source: reads int / float genes through the decider (genes as created: 0..1024; as mutated: up to maxsize)"""
    from geneticengine.representations.grammatical_evolution import dynamic_structured_ge as D

    if not hasattr(D, "GenotypeBackedSource"):
        return None
    if "g" not in _DSGE:
        install_set_order()
        spec = {"classes": [{"name": "A0", "kind": "abc", "parent": None, "weight": None, "fields": []},
                            {"name": "C0", "kind": "data", "parent": "A0", "weight": None, "fields": [["f0", ["int"]]]}],
                "start": "A0", "considered": ["C0"]}
        _DSGE["b"] = Built(spec)
        _DSGE["g"] = _DSGE["b"].extract()
    genes_i = gene_list(H)
    genes_f = gene_list(H)
    geno = D.Genotype(SimRandom(ctx, "uniform", log=False), {int: genes_i, float: genes_f})
    return D.GenotypeBackedSource(D.DynamicSGEDecider(geno, _DSGE["g"], 5))


def make_source(ctx, H, kinds=("sim", "native", "ge", "sge", "stack", "dsge")):
    from geneticengine.representations.grammatical_evolution.ge import ListWrapper as GEW
    from geneticengine.representations.grammatical_evolution.structured_ge import StructuredListWrapper as SGW, INFRASTRUCTURE_KEY
    from geneticengine.representations.stackgggp import ListWrapper as STW

    k = H.pick(list(kinds))
    if k == "sim":
        pol = H.weighted([("uniform", 3), ("edge", 3), ("lo", 1), ("hi", 1)])
        return f"sim:{pol}", SimRandom(ctx, pol, edge_den=2)
    if k == "native":
        return "native", NativeRandomSource(H.draw(1000))
    if k == "dsge":
        src = dsge_source(ctx, H)
        if src is not None:
            return "dsge", src
        k = "ge"
    dna = gene_list(H)
    if k == "ge":
        return "ge", GEW(dna)
    if k == "stack":
        return "stack", STW(dna)
    return "sge", SGW({INFRASTRUCTURE_KEY: dna, "other": [1, 2, 3]})


def run(ctx):
    H = ctx.H
    prim = H.weighted([("randint", 4), ("random_float", 3), ("choice", 2), ("choice_weighted", 4), ("weighted_sweep", 3), ("shuffle", 2),
                       ("shuffle_sweep", 1), ("pop_random", 3), ("pop_sweep", 2), ("random_bool", 1), ("normalvariate", 1),
                       ("decider_int", 3), ("decider_int_sweep", 4), ("dsge_int", 3), ("same_seed", 1)])
    ctx.stat("primitive:" + prim)
    ctx.sample = {"primitive": prim}
    try:
        body(ctx, H, prim)
        # the scenario's parameters belong to the event log (the distinct-scenarios measure is its digest)
        import json

        for k in sorted(ctx.sample):
            try:
                ctx.log("param", k, json.dumps(ctx.sample[k], sort_keys=True)[:300])
            except (TypeError, ValueError):
                pass
    except Exception as e:
        from ..world import short_tb, exc_site

        ctx.violate(f"C18/exception/{prim}/{type(e).__name__}@{exc_site(e)}", f"{prim} raised {short_tb(e)}; sample={ctx.sample}")


def body(ctx, H, prim):
    if prim in ("randint", "random_float"):
        name, src = make_source(ctx, H)
        lo, hi = H.pick(BOUNDS)
        ctx.sample.update({"source": name, "bounds": [lo, hi]})
        ctx.nontrivial = lo != hi
        for _ in range(1 + H.draw(20)):
            if prim == "randint":
                v = src.randint(lo, hi)
                if type(v) is not int or not (lo <= v <= hi):
                    ctx.violate(f"C18/randint-out-of-bounds/{name.split(':')[0]}", f"{name}.randint({lo}, {hi}) returned {v!r}")
                    return
            else:
                flo, fhi = float(lo), float(hi)
                v = src.random_float(flo, fhi)
                if not isinstance(v, float) or not (flo <= v <= fhi):
                    ctx.violate(f"C18/random_float-out-of-bounds/{name.split(':')[0]}", f"{name}.random_float({flo}, {fhi}) returned {v!r}")
                    return
        return
    if prim == "choice":
        name, src = make_source(ctx, H)
        opts = [object() for _ in range(1 + H.draw(7))]
        ctx.nontrivial = len(opts) > 1
        for _ in range(1 + H.draw(10)):
            v = src.choice(opts)
            if not any(v is o for o in opts):
                ctx.violate(f"C18/choice-not-an-option/{name.split(':')[0]}", f"{name}.choice returned a value that is not one of the options")
                return
        return
    if prim == "choice_weighted":
        name, src = make_source(ctx, H)
        n = 1 + H.draw(6)
        ws = [H.pick([0, 0, 1, 1, 2, 0.5, 0.25, 3, 90, 1e-5, 0.1]) for _ in range(n)]
        if H.draw(5) == 0:
            # every positive weight below the chooser's resolution (1e-5): still never a zero-weight option
            ws = [H.pick([0, 0, 1e-7, 3e-6, 2e-9]) for _ in range(n)]
        if not any(ws):
            ws[H.draw(n)] = 1
        shape = H.draw(4)
        if shape == 1:
            ws[0] = 0
        elif shape == 2:
            ws[-1] = 0
        elif shape == 3:
            keep = H.draw(n)
            ws = [w if i == keep else 0 for i, w in enumerate(ws)]
        if not any(ws):
            ws[0] = 1
        opts = list(range(n))
        ctx.sample.update({"source": name, "weights": ws})
        ctx.nontrivial = n > 1
        for _ in range(1 + H.draw(20)):
            v = src.choice_weighted(opts, ws)
            if v not in opts:
                ctx.violate(f"C18/choice_weighted-not-an-option/{name.split(':')[0]}", f"returned {v!r}")
                return
            if ws[v] == 0:
                ctx.violate(f"C18/choice_weighted-zero-weight-option/{name.split(':')[0]}", f"{name}.choice_weighted picked option {v} of weights {ws}")
                return
        return
    if prim == "weighted_sweep":
        n = 2 + H.draw(4)
        ws = [H.pick([0, 1, 1, 2, 3, 0.5, 0.25, 0.1, 7]) for _ in range(n)]
        if H.draw(3) == 0:
            ws = [H.pick([0, 1, 1, 2, 3, 5]) for _ in range(n)]  # all-integer weights
        if not any(ws):
            ws[H.draw(n)] = 1
        probe = Scripted([0])
        probe.choice_weighted(list(range(n)), ws)
        lo, hi = probe.requests[0]
        width = hi - lo + 1
        points = min(width, 20000)
        grid = [lo + (i * width) // points for i in range(points)] + [hi]
        counts = [0] * n
        for v in grid:
            r = Scripted([v]).choice_weighted(list(range(n)), ws)
            counts[r] += 1
            if ws[r] == 0:
                ctx.violate("C18/choice_weighted-zero-weight-option/sweep", f"base draw {v} of [{lo},{hi}] selected option {r} of weights {ws}")
                return
        tot = sum(ws)
        ctx.sample.update({"weights": ws, "grid_points": len(grid)})
        ctx.nontrivial = True
        for i in range(n):
            got = counts[i] / len(grid)
            want = ws[i] / tot
            # exhaustive sweep of the base draw: only the closed-range surplus and integer truncation may show (< 1e-3 for
            # weights summing to >= 0.1); sampled grid: plus the grid resolution
            tol = 1e-3 if points == width else 2 * n / len(grid) + 1e-3
            if tot >= 0.1 and abs(got - want) > tol:
                ctx.violate("C18/choice_weighted-not-proportional", f"weights {ws}: option {i} selected by {got:.5f} of the base-draw range, expected {want:.5f}")
                return
        return
    if prim in ("shuffle", "pop_random"):
        name, src = make_source(ctx, H)
        n = H.draw(9)
        items = [H.draw(5) for _ in range(n)]  # duplicates on purpose
        ctx.sample.update({"source": name, "items": items})
        ctx.nontrivial = n > 1
        if prim == "shuffle":
            lst = list(items)
            out = src.shuffle(lst)
            if sorted(out) != sorted(items) or sorted(lst) != sorted(items):
                ctx.violate(f"C18/shuffle-not-a-permutation/{name.split(':')[0]}", f"shuffle of {items} gave {out}")
            return
        if n == 0:
            return
        boxes = [Box(x) for x in items]  # equal values, distinct objects
        lst = list(boxes)
        v = src.pop_random(lst)
        if not any(v is b_ for b_ in boxes):
            ctx.violate(f"C18/pop_random-returned-foreign-element/{name.split(':')[0]}", f"pop_random of {items} returned {v!r}")
            return
        left = [id(x) for x in lst]
        want = [id(b_) for b_ in boxes if b_ is not v]
        if sorted(left) != sorted(want):
            ctx.violate(f"C18/pop_random-removed-wrong-element/{name.split(':')[0]}",
                        f"pop_random of {items} returned the element at position {[i for i, b_ in enumerate(boxes) if b_ is v]} but the list lost another one (by identity)")
        return
    if prim == "shuffle_sweep":
        n = 2 + H.draw(3)
        seen = set()
        for draws in itertools.product(*[range(i + 1) for i in reversed(range(1, n))]):
            out = Scripted(list(draws)).shuffle(list(range(n)))
            if sorted(out) != list(range(n)):
                ctx.violate("C18/shuffle-not-a-permutation/sweep", f"draws {draws}: {out}")
                return
            seen.add(tuple(out))
        ctx.nontrivial = True
        if len(seen) != math.factorial(n):
            ctx.violate("C18/shuffle-not-uniform", f"over all {math.factorial(n)} draw sequences shuffle of {n} elements reaches only {len(seen)} permutations")
        return
    if prim == "pop_sweep":
        n = 1 + H.draw(6)
        vals = [H.draw(3) for _ in range(n)]  # duplicates on purpose
        got = []
        for i in range(n):
            boxes = [Box(x) for x in vals]
            lst = list(boxes)
            v = Scripted([i]).pop_random(lst)
            idx = [j for j, b_ in enumerate(boxes) if b_ is v]
            if len(idx) != 1 or sorted(id(x) for x in lst) != sorted(id(b_) for b_ in boxes if b_ is not v):
                ctx.violate("C18/pop_random-removed-wrong-element/sweep", f"values {vals}, draw {i}: returned {v!r}, list left {lst}")
                return
            got.append(idx[0])
        ctx.nontrivial = n > 1
        if sorted(got) != list(range(n)):
            ctx.violate("C18/pop_random-not-uniform", f"over all {n} draws pop_random returns positions {got}")
        return
    if prim == "random_bool":
        name, src = make_source(ctx, H)
        v = src.random_bool()
        if type(v) is not bool:
            ctx.violate(f"C18/random_bool-not-a-bool/{name.split(':')[0]}", f"returned {v!r}")
        if {Scripted([0]).random_bool(), Scripted([1]).random_bool()} != {True, False}:
            ctx.violate("C18/random_bool-one-sided", "not both truth values are reachable")
        ctx.nontrivial = True
        return
    if prim == "normalvariate":
        name, src = make_source(ctx, H, kinds=("sim", "native", "ge", "sge", "stack"))
        v = src.normalvariate(0.0, 1.0)
        ctx.nontrivial = True
        if not isinstance(v, float) or math.isnan(v) or math.isinf(v):
            ctx.violate(f"C18/normalvariate-not-finite/{name.split(':')[0]}", f"returned {v!r}")
        return
    if prim == "decider_int_sweep":
        # every possible outcome of the three draws behind a wide BaseDecider.random_int (n in 0..10, e in 0..round(log10(width)), sign)
        from math import log10
        from geneticengine.representations.tree.initializations import BaseDecider

        class D(BaseDecider):
            def random_float(self): ...
            def random_str(self): ...
            def choose_production_alternatives(self, ty, alternatives, ctx): ...

        width = H.weighted([(1001 + H.draw(4000), 6), (H.pick([1023, 1457, 1999, 4801, 8191, 19999, 65535, 10**6 + 1, 2**31 - 1]), 3), (sys.maxsize - H.draw(5), 1)])
        lo = H.pick([0, 1, -1, -width // 2, -width, 10**9, -sys.maxsize + 10]) if width < sys.maxsize // 2 else -(width // 2)
        hi = lo + width
        ctx.sample.update({"bounds": [lo, hi], "width": width})
        ctx.nontrivial = True
        for n in range(11):
            for e in range(round(log10(width)) + 1):
                for bit in (0, 1):
                    v = D(Scripted([n, e, bit]), None).random_int(lo, hi)
                    if type(v) is not int or not (lo <= v <= hi):
                        ctx.violate("C18/decider-random_int-out-of-bounds/wide", f"BaseDecider.random_int({lo}, {hi}) (width {width}) with draws n={n}, e={e}, sign-bit={bit} returned {v}")
                        return
        return
    if prim in ("decider_int", "dsge_int"):
        install_set_order()
        spec = {"classes": [{"name": "A0", "kind": "abc", "parent": None, "weight": None, "fields": []},
                            {"name": "C0", "kind": "data", "parent": "A0", "weight": None, "fields": [["f0", ["int"]]]}],
                "start": "A0", "considered": ["C0"]}
        b = Built(spec)
        try:
            g = b.extract()
            lo, hi = H.pick(BOUNDS)
            ctx.sample.update({"bounds": [lo, hi]})
            ctx.nontrivial = True
            if prim == "decider_int":
                from geneticengine.representations.tree.initializations import MaxDepthDecider

                name, src = make_source(ctx, H)
                ctx.sample["source"] = name
                d = MaxDepthDecider(src, g, 3)
                for _ in range(1 + H.draw(12)):
                    v = d.random_int(lo, hi)
                    if type(v) is not int or not (lo <= v <= hi):
                        ctx.violate(f"C18/decider-random_int-out-of-bounds/{'wide' if hi - lo > 1000 else 'narrow'}", f"BaseDecider.random_int({lo}, {hi}) over {name} returned {v!r}")
                        return
            else:
                from geneticengine.representations.grammatical_evolution.dynamic_structured_ge import DynamicSGEDecider, Genotype

                src = SimRandom(ctx, H.pick(["uniform", "edge", "lo", "hi"]), edge_den=2)
                geno = Genotype(src, {int: [H.pick(GENES) for _ in range(H.draw(4))]})
                d = DynamicSGEDecider(geno, g, 5)
                for _ in range(1 + H.draw(8)):
                    v = d.random_int(lo, hi)
                    if type(v) is not int or not (lo <= v <= hi):
                        ctx.violate("C18/dsge-random_int-out-of-bounds", f"DynamicSGEDecider.random_int({lo}, {hi}) returned {v!r}")
                        return
        finally:
            b.dispose()
        return
    if prim == "same_seed":
        seed = H.draw(10**6)
        twin_kind = H.pick(["native", "native", "ge", "sge", "stack"])
        same_list = False
        if twin_kind == "native":
            a, b2 = NativeRandomSource(seed), NativeRandomSource(seed)
        else:
            # twin sources reading the same genes are the same stream too (that is what makes a genotype denote one program);
            # the second one may be handed the very same gene list object, as happens when one genotype is mapped twice
            from geneticengine.representations.grammatical_evolution.ge import ListWrapper as GEW
            from geneticengine.representations.grammatical_evolution.structured_ge import StructuredListWrapper as SGW, INFRASTRUCTURE_KEY
            from geneticengine.representations.stackgggp import ListWrapper as STW

            dna = gene_list(H)
            same_list = bool(H.draw(2))
            second = dna if same_list else list(dna)
            mk = {"ge": lambda d: GEW(d), "stack": lambda d: STW(d), "sge": lambda d: SGW({INFRASTRUCTURE_KEY: d, "other": [1, 2, 3]})}[twin_kind]
            a, b2 = mk(dna), mk(second)
        ctx.sample.update({"twin_sources": twin_kind, "same_gene_list_object": same_list})
        # a third, unrelated source is used in between (history: nothing of it may show in the twins)
        third = NativeRandomSource(seed + 1) if H.draw(2) else SimRandom(ctx, "uniform", name="third", log=False)
        ctx.nontrivial = True
        script = [(H.draw(5), H.pick(BOUNDS), H.draw(3) == 0) for _ in range(20)]

        def play(src):
            out = []
            for op, (lo, hi), interfere in script:
                if interfere:
                    third.normalvariate(0, 1)
                    third.randint(0, 9)
                if op == 0:
                    out.append(src.randint(lo, hi))
                elif op == 1:
                    out.append(src.random_float(float(lo), float(hi)))
                elif op == 2:
                    out.append(src.normalvariate(0, 1))
                elif op == 3:
                    out.append(src.shuffle(list(range(6))))
                else:
                    out.append(src.choice_weighted([1, 2, 3], [1, 2, 3]))
            return out

        xs = play(a)  # the first source plays the whole script, then its twin does
        ctx.faults["carry_over"] += 1
        ys = play(b2)
        for k, (x, y) in enumerate(zip(xs, ys)):
            if x != y:
                ctx.violate(f"C18/same-seed-different-stream/{twin_kind}",
                            f"two {twin_kind} sources built from the same seed / genes{' (same list object)' if same_list else ''} diverged at draw {k}: {x!r} vs {y!r}")
                return
        return
        return
