"""C07 -- genotype-to-phenotype mapping is a pure function of the genotype.

Simulated: the interleaving of genotype_to_phenotype calls with every other use of the SHARED
random stream (the normal configuration: the same source object is given to the decider and
to the search).  Op sequences interleave `map i` with `draw k`, create, mutate, crossover and
with mappings of other genotypes; stream H picks the interleaving, stream R answers the draws.
Oracle: every mapping of a genotype yields the same canonical program as its first mapping;
the shared source's draw counter is identical before and after a mapping, except that dynamic
SGE may draw exactly as many values as genes it appended (and a repeated mapping draws none).
"""
from __future__ import annotations

from ..ref import canon
from ..spec import features
from ..world import SynthWorld, make_world, render_value

ID = "C07"
LEVEL = "exploration"
RULE = ("one run = one generated grammar (with and without refined fields) x a genotype representation (GE, SGE, dynamic SGE, "
        "stack) x decider x gene length x random policy x an interleaving of map / draw / create / mutate / crossover operations "
        "on the shared source; non-trivial = some genotype was mapped at least twice with other uses of the shared stream in "
        "between; distinct = distinct interleaving shapes (sequence of operation kinds)")
STATES_MEASURE = "distinct interleaving shapes (sequence of operation kinds around mappings)"
COMPONENTS_REAL = ["geneticengine.representations.grammatical_evolution.{ge,structured_ge,dynamic_structured_ge}", "geneticengine.representations.stackgggp",
                   "geneticengine.representations.tree.initializations (deciders, create_node)", "geneticengine.grammar.metahandlers.*"]
COMPONENTS_STUB = ["shared RandomSource.randint/random_float (SimRandom, with draw counter)", "set iteration order (OrderedSimSet, fixed per run)"]
ASSUMPTIONS = ["the shared stream is observed through its draw counter: any randint/random_float call on the shared object counts"]

FEAT = features(list=1, annlist=2, union=1, tuple=1, cls=8, refined=4, nested=1, standalone=1, concrete_start=1, dependent=2, multi_dependent=1, falsy=1, future_annotations=1, inherited_ctor=1)
FEAT_PLAIN = features(list=1, annlist=0, union=1, tuple=1, cls=8, refined=0, nested=1, standalone=1, concrete_start=1)


def budget(tier):
    if tier == "thorough":
        return {"runs": 150000, "run_timeout": 120, "max_wall": 1500}
    return {"runs": 9000, "run_timeout": 60, "max_wall": 200}


def total_genes(g):
    return sum(len(v) for v in g.dna.values())


def directed(tier):
    """the shipped grammars and the test-suite hierarchies (real classes) under seeded configurations"""
    from ..world import corpus_directed

    return corpus_directed(tier, per_spec_quick=3, per_spec_thorough=12)


def run(ctx):
    H = ctx.H
    refined = bool(H.draw(2))
    w = make_world(ctx, FEAT if refined else FEAT_PLAIN, reps=("ge", "sge", "dsge", "stack"),
                   gene_lengths=(2, 3, 8, 32, 64, 256), delta=(1, 1, 2, 3))
    try:
        ctx.sample = w.describe()
        if not w.extract().ok:
            ctx.stat("foreign_failure:extract")
            return
        if not w.construct().ok:
            ctx.stat("foreign_failure:construct")
            return
        ctx.sample = {**w.describe(), "refined_fields": refined}
        kind = w.rep_kind
        first = {}  # genotype index -> canonical program of its first mapping
        touched = {}  # genotype index -> number of shared-stream uses since its first mapping
        n_ops = 3 + H.draw(14 if ctx.tier == "quick" else 30)
        shape = []
        for _ in range(n_ops):
            k = H.weighted([("map", 6), ("draw", 3), ("create", 2), ("mutate", 2), ("crossover", 1)])
            if not w.pool:
                k = "create"
            shape.append(k[0])
            if k == "draw":
                for _ in range(1 + H.draw(4)):
                    w.random.randint(0, 9)
                for i in touched:
                    touched[i] += 1
                continue
            if k != "map":
                res = {"create": w.op_create, "mutate": lambda: w.op_mutate(H.draw(len(w.pool))),
                       "crossover": lambda: w.op_crossover(H.draw(len(w.pool)), H.draw(len(w.pool)))}[k]()
                for i in touched:
                    touched[i] += 1
                continue
            # prefer genotypes already mapped once
            cands = list(first.keys())
            i = H.pick(cands) if (cands and H.draw(3)) else H.draw(len(w.pool))
            g = w.pool[i]
            genes0 = total_genes(g) if kind == "dsge" else 0
            d0 = w.random.draws
            res = w.op_map(i)
            drawn = w.random.draws - d0
            if res.foreign:
                ctx.stat("foreign_failure:exception")
                continue
            appended = (total_genes(g) - genes0) if kind == "dsge" else 0
            allowed = appended if kind == "dsge" else 0
            ctx.stat("mappings")
            if drawn != allowed:
                ctx.violate(f"C07/shared-stream-advanced/{kind}/{'refined' if refined else 'plain'}",
                            f"mapping a {kind} genotype drew {drawn} values from the search's shared random source "
                            f"({'genes appended: ' + str(appended) if kind == 'dsge' else 'allowed: 0'})")
            if not res.ok:
                continue
            c = canon(res.phenotype, w.ref)
            if i in first:
                ctx.stat("repeated_mappings")
                if touched.get(i, 0) > 0:
                    ctx.nontrivial = True
                if c != first[i]:
                    ctx.violate(f"C07/program-differs-between-mappings/{kind}/{'refined' if refined else 'plain'}",
                                f"the same {kind} genotype mapped to two different programs ({touched.get(i, 0)} other uses of the shared "
                                f"stream in between): first={render_value(w.pheno[i], w.ref)[:200]} now={render_value(res.phenotype, w.ref)[:200]}")
            else:
                first[i] = c
                touched[i] = 0
            if kind != "dsge" and H.draw(3) == 0:
                # "determined by the genotype and the grammar alone": a FRESH representation object of the same configuration
                # (no history of earlier mappings) maps the genotype to the same program
                rep2 = w.fresh_rep()
                if rep2 is not None:
                    from ..world import OpResult

                    r2 = OpResult("map")
                    p2 = w.guarded(r2, lambda: rep2.genotype_to_phenotype(g))
                    ctx.stat("fresh_representation_mappings")
                    if r2.ok and canon(p2, w.ref) != c:
                        ctx.violate(f"C07/program-depends-on-the-representation-object's-history/{kind}/{'refined' if refined else 'plain'}",
                                    f"a {kind} genotype maps to {render_value(res.phenotype, w.ref)[:200]} on the representation object that has mapped "
                                    f"other genotypes before, and to {render_value(p2, w.ref)[:200]} on a fresh one")
        ctx.shape = kind + ":" + "".join(shape)
        ctx.sample["interleaving"] = "".join(shape)
    finally:
        w.dispose()
