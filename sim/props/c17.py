"""C17 -- selection operators are sound (tournament and lexicase).

Simulated: N1 -- the steps are generators, so the harness pulls winners one at a time and the
draws of the simulated RandomSource between two pulls are exactly that winner's tournament
(the individuals returned by random.choice in that window are its participants).
Tournament: winner in the given population and at least as fit as every participant of its
window.  Lexicase: winner among the candidates still available (multiset by identity) and in
the union, over ALL permutations of the cases, of the survivors of the reference lexicase
filter (same epsilon / MAD rule) on those candidates (DESIGN A.5).
"""
from __future__ import annotations

import itertools
import statistics
from collections import Counter

from ..gpworld import make_intrep
from ..seams import SimRandom

ID = "C17"
LEVEL = "exploration"
RULE = ("one run = one population (2..8 individuals, 1..5 cases over a small value alphabet, ties and duplicates, per-case directions) "
        "x TournamentSelection (size 1..n+2, with/without replacement) or LexicaseSelection (with/without epsilon) x target size x "
        "random policy (uniform, edge-biased, constant lo/hi, shipped source); winners are pulled one at a time and each is judged "
        "against the participants / candidates of its own window; non-trivial = at least two winners were pulled from a population "
        "with >= 2 distinct fitness vectors; distinct = distinct (population, draw sequence) digests")
STATES_MEASURE = "distinct (population, draw sequence) pairs"
COMPONENTS_REAL = ["geneticengine.algorithms.gp.operators.selection.{TournamentSelection,LexicaseSelection}", "geneticengine.solutions.individual.Individual.key_function",
                   "geneticengine.random.sources (choice, shuffle)", "geneticengine.problems.*"]
COMPONENTS_STUB = ["RandomSource.randint/random_float (SimRandom)", "representation (integers)", "fitness (table)"]
ASSUMPTIONS = ["no NaN fitness", "epsilon-lexicase threshold = best +/- median absolute deviation of the candidates' values on that case"]


def budget(tier):
    if tier == "thorough":
        return {"runs": 300000, "run_timeout": 120, "max_wall": 1500}
    return {"runs": 20000, "run_timeout": 60, "max_wall": 200}


def survivors(cands, order, comps, mins, eps):
    S = list(cands)
    for k in order:
        if len(S) <= 1:
            break
        vals = [comps[id(x)][k] for x in S]
        best = min(vals) if mins[k] else max(vals)
        thr = best
        if eps:
            med = statistics.median(vals)
            mad = statistics.median([abs(v - med) for v in vals])
            thr = best + mad if mins[k] else best - mad
        S = [x for x in S if (comps[id(x)][k] <= thr if mins[k] else comps[id(x)][k] >= thr)]
    return S


def run(ctx):
    from geneticengine.algorithms.gp.operators.selection import LexicaseSelection, TournamentSelection
    from geneticengine.evaluation.sequential import SequentialEvaluator
    from geneticengine.problems import MultiObjectiveProblem, SingleObjectiveProblem
    from geneticengine.solutions.individual import Individual

    H = ctx.H
    rep = make_intrep()
    policy = H.weighted([("uniform", 4), ("edge", 3), ("native", 2), ("lo", 1), ("hi", 1)])
    rnd = SimRandom(ctx, policy)
    kind = H.pick(["tournament", "lexicase"])
    n = 2 + H.draw(7)
    ncases = 1 if (kind == "tournament" and H.draw(2)) else 1 + H.draw(5)
    alphabet = H.pick([[0, 1], [0, 1, 2], [1, 1, 2, 5], [0.5, 1.5, 2.5, 10.0], [-1, 0, 1], [1e-6, 3e-6, 2e-6, 0.0], [1.0, 1.0000001, 1.0000002], [1e9, 1e9 + 1, 1e9 + 2]])
    vectors = [[float(H.pick(alphabet)) for _ in range(ncases)] for _ in range(n)]
    mins = [bool(H.draw(2)) for _ in range(ncases)]
    base = [Individual(i, rep) for i in range(n)]
    members = list(base)
    for _ in range(H.draw(3) if H.draw(2) else 0):
        members.append(base[H.draw(n)])  # duplicates: the same individual twice
    if ncases == 1 and kind == "tournament":
        problem = SingleObjectiveProblem(lambda p: vectors[p.v][0], minimize=mins[0])
    else:
        problem = MultiObjectiveProblem(list(mins), lambda p: list(vectors[p.v]))
    comps = {id(m): vectors[m.genotype] for m in base}

    def agg(m):
        return sum(-c if mn else c for c, mn in zip(vectors[m.genotype], mins))

    evaluator = SequentialEvaluator()
    chosen: list = []

    def monitor(k, args, result):
        if k == "choice":
            chosen.append(result)

    rnd.monitor = monitor
    target = 1 + H.draw(len(members) + (2 if kind == "tournament" else 0))
    ctx.sample = {"kind": kind, "vectors": vectors, "minimize": mins, "members": [m.genotype for m in members], "target": target, "policy": policy}
    distinct_vectors = len({tuple(v) for v in vectors}) >= 2
    if kind == "tournament":
        size = 1 + H.draw(n + 2)
        repl = bool(H.draw(2))
        ctx.sample.update({"tournament_size": size, "with_replacement": repl})
        step = TournamentSelection(size, with_replacement=repl)
        if ncases == 1 and H.draw(3) == 2:
            # history: the same individuals went through tournaments of this problem, then of ANOTHER problem, before this pass
            other = SingleObjectiveProblem(lambda p: float((p.v * 7 + 3) % 5), minimize=bool(H.draw(2)))
            for prob in (problem, other):
                try:
                    list(step.apply(prob, evaluator, rep, rnd, list(members), min(3, len(members)), 0))
                except Exception:
                    pass
            ctx._keepalive = other
            ctx.faults["carry_over"] += 1
        gen = step.apply(problem, evaluator, rep, rnd, list(members), target, 1)
        ids = Counter(id(m) for m in members)
        pulled = 0
        while True:
            chosen.clear()
            try:
                wnr = next(gen)
            except StopIteration:
                break
            except Exception as e:
                from ..world import short_tb

                ctx.violate(f"C17/tournament/exception/{type(e).__name__}", f"TournamentSelection(size={size}, replacement={repl}) raised {short_tb(e)}")
                return
            pulled += 1
            if id(wnr) not in ids:
                ctx.violate("C17/tournament/winner-not-in-population", "a tournament winner is not a member of the given population")
                return
            parts = [c for c in chosen if isinstance(c, Individual)]
            ctx.stat("tournaments")
            worse = [p for p in parts if agg(p) > agg(wnr)]
            if worse:
                ctx.violate(f"C17/tournament/winner-worse-than-participant/{'multi' if ncases > 1 else ('minimise' if mins[0] else 'maximise')}",
                            f"winner {vectors[wnr.genotype]} (aggregate {agg(wnr)}) lost to participant {vectors[worse[0].genotype]} (aggregate {agg(worse[0])}) "
                            f"drawn for its own tournament; minimise={mins}")
                return
            if parts and not any(p is wnr for p in parts):
                ctx.violate("C17/tournament/winner-not-a-participant", "the winner was not among the individuals drawn for its tournament")
                return
        if pulled != target:
            ctx.stat("foreign_failure:count")  # C15's business
        if pulled >= 2 and distinct_vectors:
            ctx.nontrivial = True
        ctx.shape = str((tuple(map(tuple, vectors)), tuple(rnd.R.record[:40])))
        return
    # ---- lexicase
    eps = bool(H.draw(2))
    ctx.sample["epsilon"] = eps
    target = min(target, len(members))
    step = LexicaseSelection(epsilon=eps)
    if H.draw(3) == 2:
        # F13 (history): the same step object has served ANOTHER problem before (same number of cases, opposite directions, other
        # individuals); nothing of that may show in this selection
        other_mo = MultiObjectiveProblem([not m for m in mins], lambda p: list(vectors[p.v % len(vectors)]))
        ctx._keepalive = other_mo
        rnd0 = SimRandom(ctx, "uniform", name="history", log=False)
        try:
            list(step.apply(other_mo, SequentialEvaluator(), rep, rnd0, [Individual(100 + i, rep) for i in range(3)], 2, 0))
        except Exception:
            pass
        ctx.faults["carry_over"] += 1
        ctx.stat("history:step-served-another-problem")
    gen = step.apply(problem, evaluator, rep, rnd, list(members), target, 1)
    remaining = list(members)
    pulled = 0
    while True:
        try:
            wnr = next(gen)
        except StopIteration:
            break
        except Exception as e:
            from ..world import short_tb

            ctx.violate(f"C17/lexicase/exception/{type(e).__name__}", f"LexicaseSelection(epsilon={eps}) raised {short_tb(e)}")
            return
        pulled += 1
        pos = next((i for i, m in enumerate(remaining) if m is wnr), None)
        if pos is None:
            inpop = any(m is wnr for m in members)
            ctx.violate(f"C17/lexicase/{'more-copies-than-population-holds' if inpop else 'winner-not-in-population'}",
                        f"winner #{pulled} is not among the candidates still available")
            return
        W = set()
        for order in itertools.permutations(range(ncases)):
            for s in survivors(remaining, order, comps, mins, eps):
                W.add(id(s))
        ctx.stat("lexicase_winners")
        if id(wnr) not in W:
            ctx.violate(f"C17/lexicase/winner-survives-no-case-order/{'first' if pulled == 1 else 'later'}-winner/{'epsilon' if eps else 'plain'}",
                        f"winner #{pulled} {vectors[wnr.genotype]} survives the lexicase filter for no order of the {ncases} cases among the "
                        f"{len(remaining)} candidates still available {[vectors[m.genotype] for m in remaining]}; minimise={mins}")
            return
        remaining.pop(pos)
    if pulled >= 2 and distinct_vectors:
        ctx.nontrivial = True
    ctx.shape = str((tuple(map(tuple, vectors)), tuple(rnd.R.record[:40])))
