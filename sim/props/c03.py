"""C03 -- depth limits are respected and every feasible depth limit is usable.

Simulated: N1 (all policies incl. boundary draws), op sequences (N7).  The depth offset is
swept around both the reference minimum depth (shallowest derivable program, lists may be
empty) and the minimum the library reports.  Oracle: feasible limit => construction and every
creation complete and depth(program) <= limit, also after any mutate/crossover sequence;
limit below the reference minimum => library error before any random draw is consumed;
in between (the library's analysis is conservative) => either of the two, never midway.
"""
from __future__ import annotations

from ..spec import features
from ..world import SynthWorld, render_value

ID = "C03"
LEVEL = "exploration"
RULE = ("one run = one generated grammar (lists of abstract elements, annotated lists, unions, nested abstract layers, "
        "mutual recursion) x a depth-limited configuration (grow/full/pi-grow decider on tree, GE or SGE, or dynamic SGE) x "
        "a maximum depth drawn around the reference and the reported minimum x random policy x a create/map/mutate/crossover "
        "sequence; non-trivial = a program was produced and its depth measured, or an infeasible limit was presented; "
        "distinct = distinct event-log digests")
COMPONENTS_REAL = ["geneticengine.representations.tree.initializations (deciders, create_node)", "geneticengine.representations.* (tree, ge, sge, dsge)",
                   "geneticengine.grammar.grammar (distance analysis)", "geneticengine.representations.tree.operators (initialisers)"]
COMPONENTS_STUB = ["RandomSource.randint/random_float (SimRandom)", "set iteration order (OrderedSimSet)"]
ASSUMPTIONS = ["depth = longest chain of nested grammar-class instances; lists, tuples and base values are transparent",
               "a limit between the true minimum and the (conservative) reported minimum may be rejected up-front or served, never failed midway",
               "'completes without error' is judged on grammars without failing refinements; in the stratum with failing refinements (Flaky, infeasible Dependent) an operation may fail and only the depth of produced programs is judged"]

FEAT = features(list=3, annlist=3, union=2, tuple=1, nested=2, cls=8, refined=2, standalone=1, concrete_start=1, infeasible=0, nested_generic=1, deep_chain=1, self_ref=1, nested_list=1, falsy=1, future_annotations=1, union_generic=1)


def budget(tier):
    if tier == "thorough":
        return {"runs": 150000, "run_timeout": 120, "max_wall": 1500}
    return {"runs": 9000, "run_timeout": 60, "max_wall": 200}


def initialiser_stratum(ctx, w, d, rm, lm):
    """the depth-limited population initialisers at a feasible limit: every individual within the limit, none failing"""
    from geneticengine.representations.tree.operators import FullInitializer, PositionIndependentGrowInitializer

    H = ctx.H
    name = H.pick(["full", "pigrow"])
    init = FullInitializer(d) if name == "full" else PositionIndependentGrowInitializer(d)
    from ..world import OpResult

    if H.draw(3) == 0:
        # F13 (history): the same initialiser object was used before on ANOTHER, deeper grammar for which the limit is infeasible
        # (whatever happened there, failing included, must not show afterwards)
        from geneticengine.representations.tree.initializations import MaxDepthDecider
        from geneticengine.representations.tree.treebased import TreeBasedRepresentation
        from ..seams import SimRandom
        from ..spec import Built

        chain = d + 2
        deep = {"classes": [{"name": "A0", "kind": "abc", "parent": None, "weight": None, "fields": []},
                            {"name": "C0", "kind": "data", "parent": "A0", "weight": None, "fields": [["f0", ["cls", f"K{chain - 1}"]]]}]
                + [{"name": f"K{j}", "kind": "data", "parent": None, "weight": None, "fields": [["f0", ["bool"] if j == 0 else ["cls", f"K{j - 1}"]]]}
                   for j in range(chain)],
                "start": "A0", "considered": ["C0"] + [f"K{j}" for j in range(chain)]}
        b2 = Built(deep)
        try:
            g2 = b2.extract()
            rnd0 = SimRandom(ctx, "uniform", name="history", log=False)
            rep2 = TreeBasedRepresentation(g2, MaxDepthDecider(rnd0, g2, chain + 3))
            list(init.initialize(None, rep2, rnd0, 4))
        except Exception:
            pass
        finally:
            b2.dispose()
        ctx.faults["carry_over"] += 1
        ctx.stat("history:initialiser-served-a-deeper-grammar")
    res = OpResult("initialise")
    inds = w.guarded(res, lambda: list(init.initialize(None, w.rep, w.random, 2 + H.draw(5))))
    ctx.stat("initialiser_runs")
    if not res.ok:
        if res.error != "step-cap":
            ctx.violate(f"C03/feasible-limit-fails/initialiser:{name}/{res.foreign or res.error}",
                        f"{name} initialiser with max_depth={d} (reference minimum {rm}, reported {lm}) failed: {res.error} {res.tb}")
        return
    for ind in inds:
        p = ind.genotype
        if w.ref.conforms(p, w.start_type()) is not None:
            continue
        dp = w.ref.depth(p)
        if dp > d:
            ctx.violate(f"C03/depth-exceeded/initialiser:{name}", f"{name} initialiser with max_depth={d} produced a program of depth {dp}: {render_value(p, w.ref)}")
            return


def run(ctx):
    H = ctx.H
    feat = dict(FEAT)
    if H.draw(12) == 11:
        feat["infeasible"] = 1
    # F1 stratum: refinements that fail (Flaky on a seeded plan, Dependent -> VarRange([])) make create_node backtrack near the
    # depth frontier; an operation may then fail legitimately, so only the depth of what IS produced is judged there
    failing = H.draw(5) == 4
    recover_at = None
    if failing:
        if H.draw(2):
            feat.update(flaky=3, dependent=2, multi_dependent=1)
        else:
            # only harness-controlled failures (Flaky): from a seeded step on the faults STOP, and from then on a feasible limit
            # must be served without error again (whatever the failed attempts did must not outlive them)
            feat.update(flaky=4, dependent=0)
            recover_at = "pending"
        ctx.stat("failing_refinement_runs")
    w = SynthWorld(ctx, feat=feat, reps=("tree", "tree", "ge", "sge", "dsge"), deciders=("grow", "full", "pigrow"))
    try:
        ctx.sample = w.describe()
        if not w.extract().ok:
            ctx.stat("foreign_failure:extract")
            return
        rm = w.ref.mind_start()
        lm = w.lib_min_depth()
        if lm is None:
            ctx.stat("foreign_failure:no-min-depth")
            return
        inf = rm >= 10**6
        lib_inf = lm >= 10**6  # the library believes some symbol cannot reach a terminal (one-element-list convention)
        if inf:
            d = H.pick([1, 3, 10, 50])
        elif lib_inf:
            d = H.pick([rm, rm + 1, rm + 3, rm - 1])
        else:
            d = H.weighted([(rm, 4), (rm + 1, 2), (rm + 2, 2), (rm + 4, 1), (max(lm, rm), 4), (max(lm, rm) + 1, 2),
                            (rm - 1, 3), (rm - 2, 1), (lm - 1, 1), (0, 1)])
        zone = "infeasible" if (inf or d < rm) else ("feasible" if (d >= max(lm, rm) and not lib_inf) else "conservative")
        ctx.stat("zone:" + zone)
        ctx.log("limits", "ref", rm, "lib", lm, "d", d, zone)
        draws0 = w.random.draws
        r = w.construct(max_depth=d)
        ctx.sample = {**w.describe(), "ref_min_depth": rm, "reported_min_depth": lm, "zone": zone}
        cfg = f"{w.rep_kind}:{w.decider_kind if w.rep_kind != 'dsge' else 'dsge'}"
        if not r.ok:
            if zone == "feasible":
                ctx.violate(f"C03/feasible-limit-rejected/{cfg}",
                            f"max_depth={d} >= minimum depth (reference {rm}, reported {lm}) was rejected at construction: {r.error} {r.tb}")
            elif r.foreign:
                ctx.violate(f"C03/rejected-with-foreign-error/{cfg}/{r.foreign}", f"max_depth={d} rejected with {r.tb}")
            else:
                ctx.nontrivial = True
                ctx.stat("rejected_up_front")
            return
        n_ops = 1 + H.draw(10 if ctx.tier == "quick" else 30)
        ops = []
        if recover_at == "pending":
            recover_at = H.draw(n_ops)
        for step in range(n_ops):
            if recover_at is not None and step == recover_at:
                w.flaky_den = 0
                failing = False
                ctx.stat("faults_stopped")
            if H.draw(6) == 0 and w.rep_kind in ("tree", "ge", "sge"):
                # F13 (history), unjudged: ANOTHER decider with a different limit works on the same grammar object in between
                # (a depth sweep, an initialiser, a second search); nothing of it may show at this run's limit
                from geneticengine.representations.tree.initializations import MaxDepthDecider
                from geneticengine.representations.tree.treebased import TreeBasedRepresentation
                from ..seams import SimRandom

                other_limit = H.pick([d + 1, d + 2, d + 4, max(lm, rm), max(lm, rm) + 1])
                rnd0 = SimRandom(ctx, "uniform", name="history", log=False)
                rnd0.op_cap = 5000
                try:
                    TreeBasedRepresentation(w.grammar, MaxDepthDecider(rnd0, w.grammar, other_limit)).create_genotype(rnd0)
                except BaseException as e:
                    if isinstance(e, KeyboardInterrupt):
                        raise
                ctx.faults["carry_over"] += 1
                ctx.stat("history:other-depth-limit-on-the-same-grammar")
            d0 = w.random.draws
            res = w.random_op()
            ops.append((res.kind,) + tuple(res.args) + (("ok",) if res.ok else (res.error,)))
            results = []
            if res.kind == "map":
                results.append((res, "map"))
            for idx in res.new:
                if w.rep_kind == "tree":
                    results.append((res, res.kind))
                else:
                    results.append((w.op_map(idx), f"{res.kind}+map"))
            if not res.ok and res.kind != "map":
                results.append((res, res.kind))
            for rr, how in results:
                if rr.ok:
                    p = rr.phenotype if rr.kind == "map" else w.pool[rr.new[0]] if rr.kind == "create" else None
                    progs = [rr.phenotype] if rr.kind == "map" else [w.pool[i] for i in rr.new]
                    for p in progs:
                        if w.ref.conforms(p, w.start_type()) is not None:
                            ctx.stat("foreign_failure:ill-typed")
                            continue
                        dp = w.ref.depth(p)
                        ctx.stat("depths_measured")
                        ctx.nontrivial = True
                        if dp > d:
                            ctx.violate(f"C03/depth-exceeded/{cfg}/{how.split('+')[0]}",
                                        f"{how} with max_depth={d} produced a program of depth {dp}: {render_value(p, w.ref)}")
                        if zone == "infeasible":
                            ctx.violate(f"C03/infeasible-limit-served/{cfg}", f"max_depth={d} < reference minimum {rm} but a program was produced")
                    continue
                if rr.error == "step-cap":
                    continue
                # a failing operation
                if failing:
                    ctx.stat("failed_with_failing_refinements")
                elif zone == "feasible":
                    ctx.violate(f"C03/feasible-limit-fails/{cfg}/{rr.foreign or rr.error}",
                                f"{how} failed although max_depth={d} >= minimum depth (reference {rm}, reported {lm}): {rr.error} {rr.tb}")
                else:
                    # must be the library's error, raised before any draw
                    ctx.nontrivial = True
                    if rr.foreign:
                        ctx.violate(f"C03/midway-failure/{cfg}/{how.split('+')[0]}/{rr.foreign}",
                                    f"{how} with infeasible max_depth={d} (reference minimum {rm}) failed with a foreign error: {rr.tb}")
                    elif rr.draws > 0 and rr.kind in ("create", "map") and w.rep_kind in ("tree", "dsge"):
                        ctx.violate(f"C03/midway-failure/{cfg}/{how.split('+')[0]}/after-{'some' if rr.draws else 'no'}-draws",
                                    f"{how} with infeasible max_depth={d} (reference minimum {rm}, reported {lm}) consumed {rr.draws} random draws before failing with {rr.error}")
                    else:
                        ctx.stat("rejected_at_first_use")
        ctx.sample["ops"] = ops[:20]
        if w.rep_kind == "tree" and zone == "feasible" and not failing and H.draw(3) == 2:
            initialiser_stratum(ctx, w, d, rm, lm)
    finally:
        w.dispose()
