"""C05 -- grammar analysis is exact: productions, minimum depths, recursion, reachability.

Simulated: N2 -- the fix-point in preprocess and the BFS in usable_grammar run under seeded
permutations of every symbol set (two different schedules per specification must agree), and
the same specifications are analysed in fresh interpreters with different PYTHONHASHSEED /
allocation noise (N2', OrderedSimSet off, `setarch -R` so that each environment is repeatable).
Generated: the hierarchies (seeded input generation against a brute-force reference -- this
half is not simulation, see DESIGN 1.1).
"""
from __future__ import annotations

import json
import os
import subprocess
import sys

from ..ref import Ref, INF
from ..seams import install_set_order, set_order_seed, type_key
from ..spec import Built, features, gen_spec
from ..world import short_tb, exc_site

ID = "C05"
LEVEL = "exploration"
RULE = ("one run = one generated class hierarchy (multi-level abstract types, unreachable classes, fields of base, list, annotated, "
        "union and tuple type, self and mutual recursion, dataclass and plain productions) analysed under two seeded iteration "
        "orders of the grammar's symbol sets; productions, minimum depth of every class symbol, the recursive set and the reachable "
        "sub-grammar are compared with an independent reference over the specification and between the two schedules; every 50th "
        "run additionally analyses its specification in fresh interpreters (different PYTHONHASHSEED, allocation noise, ASLR off); "
        "non-trivial = the hierarchy has >= 2 abstract types or recursion or an unreachable class; distinct = distinct "
        "(specification, permutation) pairs (event-log digests)")
STATES_MEASURE = "distinct (specification, permutation) pairs"
COMPONENTS_REAL = ["geneticengine.grammar.grammar.{extract_grammar,Grammar.register_type,preprocess,usable_grammar}", "geneticengine.grammar.utils", "geneticengine.grammar.decorators"]
COMPONENTS_STUB = ["set iteration order of Grammar symbol sets (OrderedSimSet); the OS process environment in the fresh-interpreter stratum is real"]
ASSUMPTIONS = ["tree-depth mode, and expansion-depth mode on hierarchies without lists, tuples and unions (where the documentation defines it)", "minimum depth = depth of the shallowest derivable program; lists may be empty when their size refinement allows it",
               "productions of A = registered classes whose first base is A"]

FEAT = features(list=2, annlist=2, union=2, tuple=2, nested=2, unreachable=2, standalone=2, cls=8, refined=2, plain=2, concrete_start=1, bool=2, nested_generic=1, self_ref=1, deep_chain=1, nested_list=1, weights=1, abstract_weights=1, future_annotations=1, inherited_ctor=1, same_name=1)


def budget(tier):
    if tier == "thorough":
        return {"runs": 300000, "run_timeout": 120, "max_wall": 1500}
    return {"runs": 16000, "run_timeout": 60, "max_wall": 200}


def analysis(b, g):
    """the library's public analysis results, keyed by spec class names"""
    names = b.name_of
    out = {
        "alternatives": {names[k]: [names.get(x, type_key(x)) for x in v] for k, v in g.alternatives.items() if k in names},
        "distance": {names[k]: v for k, v in g.distanceToTerminal.items() if k in names},
        "recursive": sorted(names[x] for x in set.__iter__(g.recursive_prods) if x in names),
        "all_nodes": sorted(names[x] for x in set.__iter__(g.all_nodes) if x in names),
    }
    return out


def feature_of_field(t):
    k = t[0]
    if k == "ann":
        return "annlist" if t[1][0] == "list" else feature_of_field(t[1])
    return k


def cause_mindepth(ref, name, got, want):
    """which field kind explains an over/under-estimate of a class' minimum depth"""
    kinds = set()
    c = ref.cls[name]
    if ref.is_abstract(name):
        return "abstract"
    for _, t in c["fields"]:
        kinds.add(feature_of_field(t))
        if t[0] in ("union", "tuple"):
            for x in t[1]:
                kinds.add(feature_of_field(x))
    for k in ("list", "annlist", "union", "bool", "tuple", "cls"):
        if k in kinds:
            return k
    return "other"


def compare(ctx, spec, b, ref, g, tag):
    a = analysis(b, g)
    reg = ref.registered()
    # registered classes
    want_nodes = sorted(reg)
    if a["all_nodes"] != want_nodes:
        ctx.violate("C05/registered-classes", f"{tag}: all_nodes = {a['all_nodes']}, reference closure = {want_nodes}")
        return a
    # productions
    for n in reg:
        if not ref.is_abstract(n):
            continue
        got = a["alternatives"].get(n, [])
        want = ref.productions(n, reg)
        if len(got) != len(set(got)):
            ctx.violate("C05/productions/duplicate", f"{tag}: {n} -> {got}")
            return a
        if sorted(got) != sorted(want):
            ctx.violate(f"C05/productions/{'missing' if set(want) - set(got) else 'extra'}", f"{tag}: productions of {n} = {got}, direct registered subtypes = {want}")
            return a
    # minimum depths
    expansion = bool(spec.get("expansion_depthing"))
    minds = ref.minds_expansion() if expansion else ref.minds()
    libc = minds if expansion else ref.lib_like_minds()
    for n in sorted(reg):
        got = a["distance"].get(n)
        want = minds[n]
        if want >= INF:
            if got is not None and got < 10**6:
                ctx.violate("C05/mindepth/finite-for-underivable", f"{tag}: {n} has no finite derivation but distance {got}")
                return a
            continue
        if got != want:
            direction = "overestimate" if (got is None or got > want) else "underestimate"
            cause = cause_of(ref, n, a["distance"], minds)
            same_as_convention = got == libc[n] or (got is not None and got >= 10**6 and libc[n] >= 10**6)
            if same_as_convention and cause in ("list", "annlist"):
                # the library's documented convention: a list is assumed to need one element (conservative)
                sig = f"C05/mindepth/{direction}/field-kind={cause}"
            else:
                sig = f"C05/mindepth/{direction}/field-kind={cause}/{'expansion-depthing' if expansion else 'beyond-the-one-element-list-convention'}"
            ctx.violate(sig, f"{tag}: minimum depth of {n} reported {got}, shallowest derivable program has depth {want} "
                             f"(one-element-list convention: {libc[n]}); fields={ref.cls[n]['fields']}")
            break
    # recursion
    want_rec = sorted(ref.recursive())
    if a["recursive"] != want_rec:
        miss = sorted(set(want_rec) - set(a["recursive"]))
        extra = sorted(set(a["recursive"]) - set(want_rec))
        via = "tuple" if any(_reaches_via_tuple(ref, n) for n in miss) else "other"
        ctx.violate(f"C05/recursive/{'missing' if miss else 'extra'}/via-{via}", f"{tag}: recursive symbols {a['recursive']}, reference {want_rec} (missing {miss}, extra {extra})")
        return a
    return a


def _bool_extra(ref, n, libc):
    return 0


def cause_of(ref, n, got, minds):
    """the innermost class whose own fields explain the discrepancy (children agree)"""
    seen = set()
    cur = n
    while True:
        seen.add(cur)
        nxt = None
        kids = ref.productions(cur) if ref.is_abstract(cur) else [m for _, t in ref.cls[cur]["fields"] for m in ref.mentioned(t)]
        if ref.is_abstract(cur):
            # the minimum depth of an abstract type is decided by its SHALLOWEST production: follow that one (a deeper production
            # that merely recurses into the type is wrong as a consequence, not as a cause)
            kids = sorted(kids, key=lambda k: (minds.get(k, INF), k))
        for k in kids:
            if k not in seen and got.get(k) != minds.get(k) and minds.get(k, INF) < INF:
                nxt = k
                break
        if nxt is None:
            return cause_mindepth(ref, cur, got.get(cur), minds.get(cur))
        cur = nxt


def _reaches_via_tuple(ref, n):
    c = ref.cls.get(n)
    if not c or ref.is_abstract(n):
        return any(_reaches_via_tuple(ref, p) for p in ref.productions(n)) if c else False
    return any(_has_tuple(t) for _, t in c["fields"])


def _has_tuple(t):
    k = t[0]
    if k == "tuple":
        return True
    if k in ("list", "ann"):
        return _has_tuple(t[1])
    if k == "union":
        return any(_has_tuple(x) for x in t[1])
    return False


def check_usable(ctx, spec, b, ref, g, tag):
    reg = ref.registered()
    try:
        u = g.usable_grammar()
    except AssertionError as e:
        kinds = set()
        for n in ref.reachable() & reg:
            c = ref.cls[n]
            if c["kind"] == "plain":
                kinds.add("plain-class")
            for _, t in c["fields"]:
                if t[0] == "ann" and t[1][0] == "list":
                    kinds.add("annotated-list")
                if t[0] == "list" and t[1][0] != "cls":
                    kinds.add("list-of-non-class")
                if t[0] in ("union", "tuple") and any(x[0] not in ("cls", "int", "float", "str", "bool") for x in t[1]):
                    kinds.add("nested-generic")
        ctx.violate(f"C05/usable-grammar/assertion/{'+'.join(sorted(kinds)) or 'other'}", f"{tag}: usable_grammar() raised AssertionError at {exc_site(e)}")
        return
    except Exception as e:
        ctx.violate(f"C05/usable-grammar/{type(e).__name__}@{exc_site(e)}", f"{tag}: usable_grammar() raised {short_tb(e)}")
        return
    names = b.name_of
    got = sorted(names[x] for x in set.__iter__(u.all_nodes) if x in names)
    want = sorted(ref.reachable() & reg)
    # ancestors of reachable classes are registered as a side effect of registering the class: tolerated
    anc = {x for n in want for x in ref.ancestors(n)}
    if set(want) - set(got) or (set(got) - set(want)) - anc:
        ctx.violate(f"C05/usable-grammar/symbols-{'missing' if set(want) - set(got) else 'extra'}", f"{tag}: usable grammar has classes {got}, reachable from the start symbol: {want}")
        return
    for n in want:
        if ref.is_abstract(n):
            gp = sorted(names.get(x, "?") for x in u.alternatives.get(b.cls[n], []))
            wp = sorted(ref.productions(n, reg))
            if gp != wp:
                ctx.violate("C05/usable-grammar/productions-changed", f"{tag}: productions of {n} in the usable grammar {gp}, in the grammar {wp}")
                return


def second_grammar(ctx, H, spec, b, g1, a1):
    """F13: another grammar is extracted from the SAME classes in the same process (another start symbol, a subset of the
    productions, or the other depth-counting mode); afterwards the first grammar must still report what it reported before,
    and the second one must be exact for its own specification"""
    import copy
    from geneticengine.grammar.grammar import extract_grammar

    spec2 = copy.deepcopy(spec)
    how = H.pick(["start", "subset", "mode"])
    concretes = [c["name"] for c in spec["classes"] if c["kind"] in ("data", "plain")]
    if how == "start":
        cands = [c["name"] for c in spec["classes"] if c["name"] != spec["start"] and c["name"][0] in "AC"]
        if not cands:
            return
        spec2["start"] = H.pick(cands)
    elif how == "subset":
        if len(spec2["considered"]) < 2:
            return
        drop = H.pick([n for n in spec2["considered"]])
        spec2["considered"] = [n for n in spec2["considered"] if n != drop]
    else:
        spec2["expansion_depthing"] = not spec.get("expansion_depthing", False)
    ctx.faults["carry_over"] += 1
    ctx.stat("second_grammars:" + how)
    try:
        g2 = extract_grammar([b.cls[n] for n in spec2["considered"]], b.cls[spec2["start"]], spec2["expansion_depthing"])
    except Exception:
        g2 = None  # e.g. a start symbol without derivations: the library may reject it
    again = analysis(b, g1)
    if again != a1:
        keys = [k for k in a1 if a1[k] != again[k]]
        ctx.violate(f"C05/first-grammar-changed-by-second-extraction/{'+'.join(keys)}",
                    f"after extracting a second grammar from the same classes ({how}) the first grammar reports different {keys}: "
                    f"{[(n, a1['distance'][n], again['distance'].get(n)) for n in a1['distance'] if a1['distance'][n] != again['distance'].get(n)][:4]}")
        return
    if g2 is not None and how != "mode":
        ref2 = Ref(spec2, b)
        compare(ctx, spec2, b, ref2, g2, f"second grammar ({how})")


_CORPUS = None


def corpus():
    global _CORPUS
    if _CORPUS is None:
        from ..corpus import all_corpus_specs

        _CORPUS = all_corpus_specs(os.environ.get("VERIF_REPO", "/repo"))
    return _CORPUS


def directed(tier):
    """the shipped grammars (geml.grammars) and the hierarchies of the test-suite, analysed under seeded set orders"""
    try:
        n = len(corpus()[0])
    except BaseException:
        return []
    return [{"run_index": 10**6 + i, "params": {"corpus": i}} for i in range(n)]


def run_corpus(ctx, idx):
    from ..corpus import CorpusBuilt

    specs, skipped = corpus()
    spec, cls_by_name = specs[idx]
    ref = Ref(spec)
    ctx.sample = {"corpus": spec["origin"], "classes": len(spec["classes"]), "considered": len(spec["considered"])}
    ctx.stat("corpus_specs")
    results = []
    for order in (ctx.S.draw(2**16), ctx.S.draw(2**16) or 1):
        set_order_seed(order)
        b = CorpusBuilt(spec, cls_by_name)
        ref.built = b
        try:
            g = b.extract()
        except Exception as e:
            from ..world import lib_error_types

            if isinstance(e, lib_error_types()):
                ctx.stat("corpus_rejected_by_library")  # e.g. the deliberately invalid class of grammar_test
                return
            ctx.violate(f"C05/extract-raises/{type(e).__name__}@{exc_site(e)}", f"corpus {spec['origin']}: extract_grammar raised {short_tb(e)}")
            return
        a = compare(ctx, spec, b, ref, g, f"corpus {spec['origin']} order seed {order}")
        check_usable(ctx, spec, b, ref, g, f"corpus {spec['origin']} order seed {order}")
        results.append(a)
    ctx.nontrivial = True
    ctx.log("corpus", spec["origin"])
    if len(results) == 2 and results[0] != results[1]:
        ctx.violate("C05/schedule-dependent/corpus", f"corpus {spec['origin']}: analysis differs between iteration orders")


def run(ctx):
    H = ctx.H
    install_set_order()
    if ctx.params.get("corpus") is not None:
        return run_corpus(ctx, ctx.params["corpus"])
    if H.draw(4) == 3:
        # grammar-expansion depthing: modelled where the documentation defines it (no lists, tuples, unions)
        spec = gen_spec(H, features(**{**FEAT, "list": 0, "annlist": 0, "union": 0, "tuple": 0, "interval": 0, "self_ref": 0, "nested_list": 0, "nested_generic": 0}))
        spec["expansion_depthing"] = True
        ctx.stat("expansion_depthing_specs")
    else:
        spec = gen_spec(H, FEAT)
    ref = Ref(spec)
    s1 = ctx.S.draw(2**16)
    s2 = ctx.S.draw(2**16) or 1
    results = []
    ctx.sample = None
    import hashlib as _h
    ctx.log("spec", _h.sha256(repr(spec).encode()).hexdigest()[:16], s1, s2)
    nontrivial = (sum(1 for c in spec["classes"] if c["kind"] in ("abc", "deco")) >= 2 or bool(ref.recursive())
                  or len(ref.registered()) < len(spec["classes"]))
    for order in (s1, s2):
        set_order_seed(order)
        if order:
            ctx.faults["set_order"] += 1
        b = Built(spec)
        ref.built = b
        try:
            if ctx.sample is None:
                ctx.sample = {"grammar_source": b.source.split("from sim.flaky import Flaky\n", 1)[-1].strip(), "start": spec["start"],
                              "considered": spec["considered"], "order_seeds": [s1, s2]}
            try:
                g = b.extract()
            except Exception as e:
                ctx.violate(f"C05/extract-raises/{type(e).__name__}@{exc_site(e)}", f"extract_grammar raised {short_tb(e)}")
                return
            a = compare(ctx, spec, b, ref, g, f"order seed {order}")
            check_usable(ctx, spec, b, ref, g, f"order seed {order}")
            results.append(a)
            if order == s1 and not ctx.violations and H.draw(3) == 2:
                second_grammar(ctx, H, spec, b, g, a)
        finally:
            b.dispose()
        if ctx.violations:
            break
    ctx.nontrivial = nontrivial
    if len(results) == 2 and results[0] != results[1]:
        keys = [k for k in results[0] if results[0][k] != results[1][k]]
        ctx.violate(f"C05/schedule-dependent/{'+'.join(keys)}", f"analysis differs between iteration orders {s1} and {s2}: {keys}")
    ctx.stat("specs")
    # N2': fresh interpreters, real set order
    if ctx.run_index % (100 if ctx.tier == "quick" else 25) == 7 and results:
        envs = fresh_analyses(spec, n=3 if ctx.tier == "quick" else 6)
        ctx.stat("fresh_interpreter_analyses", len(envs))
        for env, res in envs:
            if res is None:
                ctx.stat("fresh_interpreter_failures")
                continue
            base = {k: results[0][k] for k in ("distance", "recursive", "all_nodes")}
            alt = {k: sorted(v) for k, v in results[0]["alternatives"].items()}
            ralt = {k: sorted(v) for k, v in res["alternatives"].items()}
            if {k: res[k] for k in base} != base or alt != ralt:
                ctx.violate("C05/process-dependent", f"analysis in a fresh interpreter ({env}) differs from the in-process one")
                break


def fresh_analyses(spec, n=3):
    here = os.path.dirname(os.path.dirname(os.path.abspath(__file__)))
    out = []
    for i in range(n):
        env = dict(os.environ)
        env["PYTHONHASHSEED"] = str(1 + 7919 * i)
        env["SIM_ALLOC_NOISE"] = str(i * 37)
        cmd = [sys.executable, "-B", os.path.join(here, "envworker.py"), "analysis"]
        if os.path.exists("/usr/bin/setarch"):
            cmd = ["setarch", os.uname().machine, "-R"] + cmd
        try:
            p = subprocess.run(cmd, input=json.dumps(spec), capture_output=True, text=True, env=env, timeout=60)
            res = json.loads(p.stdout) if p.returncode == 0 else None
        except Exception:
            res = None
        out.append((f"PYTHONHASHSEED={env['PYTHONHASHSEED']} noise={env['SIM_ALLOC_NOISE']}", res))
    return out
