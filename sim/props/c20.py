"""C20 -- the CSV search log is faithful and a valid prefix at every interruption point.

Simulated: N4 (file: real TextIOWrapper/BufferedWriter/csv.writer over a simulated raw file
whose image is what survives a kill), N3 (clock), crash F6 at seam events, short writes F7,
ENOSPC F8.  Model: header + one row per (recorded) registration rendered by an independent
csv.writer from the model's own extractors (DESIGN A.7).
"""
from __future__ import annotations

import csv
import io

from ..core import Chooser, SimCrash
from ..seams import SimClock, SimFS, installed_clock, installed_fs

ID = "C20"
LEVEL = "fault_enumeration"
RULE = ("one run = one generated recording configuration (1-4 objectives, default/custom/extra fields, both "
        "recording modes) x one scripted evaluation history (1-12 registrations, a third of the runs up to 40 quick / 60 thorough, quoting-hostile "
        "program text, ties and improvements) executed fault-free and then re-executed with a crash injected at seam "
        "events (every event in the thorough tier for histories <=12, a seeded subset otherwise), plus short-write "
        "and ENOSPC schedules; non-trivial = at least one row was written and at least one fault fired or a "
        "crash point was explored; distinct = distinct event-log digests")
STATES_MEASURE = "distinct (history, crash event) pairs explored"
COMPONENTS_REAL = ["geneticengine.evaluation.recorder.CSVSearchRecorder", "geneticengine.evaluation.tracker.*",
                   "geneticengine.evaluation.sequential.SequentialEvaluator", "geneticengine.solutions.individual.Individual",
                   "geneticengine.problems.*", "csv.writer", "io.TextIOWrapper", "io.BufferedWriter",
                   "geml.simplegp.SimpleGP.build_recorder (extra-field wrapper)"]
COMPONENTS_STUB = ["raw file (SimRaw: kernel image, short writes, ENOSPC)", "time.monotonic_ns (SimClock)",
                   "representation (identity mapping of scripted programs)"]
ASSUMPTIONS = ["a kill loses exactly what Python has not yet passed to write(2); the kernel image is what raw.write accepted",
               "inside one registration a partial last row is tolerated (the property quantifies over points between registrations)"]


def budget(tier):
    if tier == "thorough":
        return {"runs": 60000, "run_timeout": 120, "max_wall": 1500}
    return {"runs": 8000, "run_timeout": 60, "max_wall": 200}


HOSTILE = ["a", "x,y", 'say "hi"', "line1\nline2", "", " lead", "tab\there", "é€", "a,\"b\"\r\nc", "0", "-1.5", "'q'", ";"]


class Prog:
    __slots__ = ("text", "pid")

    def __init__(self, pid, text):
        self.pid = pid
        self.text = text

    def __str__(self):
        return self.text

    __repr__ = __str__


class FakeRep:
    def __init__(self, progs):
        self.progs = progs

    def genotype_to_phenotype(self, g):
        return self.progs[g]


class Probe:
    """Recorder placed before (pre) and after (post) the CSV recorder: marks registration
    boundaries as seam events and lets the oracle look at the disk image in between."""

    def __init__(self, world, pre):
        self.world = world
        self.pre = pre

    def register(self, tracker, individual, problem, is_best):
        w = self.world
        if self.pre:
            w.in_reg = True
            w.now_pre = w.clock.now
            w.cur = (individual, is_best)
            w.fs.event("reg-pre")
        else:
            w.fs.event("reg-post-before-check")
            w.after_registration(individual, is_best)
            w.in_reg = False
            w.fs.event("reg-post")


def gen_config(H: Chooser, tier):
    k = H.weighted([(1, 3), (2, 4), (3, 2), (4, 1)])
    multi = True if k > 1 else bool(H.draw(3) == 2)
    cfg = {
        "k": k, "multi": multi,
        "minimize": [bool(H.draw(2)) for _ in range(k)],
        "minimize_as_bool": multi and H.draw(4) == 3,
        "only_best": bool(H.draw(2)),
        "fields": H.weighted([("default", 5), ("custom", 2)]),
        "extra": H.draw(3),  # number of extra fields
        "agg": multi and H.draw(3) == 2,
    }
    n = 1 + H.draw(12)
    if H.draw(3) == 2:
        n += H.draw(29 if tier == "quick" else 49)
    cfg_nan = H.draw(3) == 0
    hist = []
    for i in range(n):
        # small value alphabet -> ties, repeats, plateaus, late improvements
        comps = [float(H.pick([0, 1, 1, 2, 3, 5, -1, 2.5, 1e-7, 10**6])) for _ in range(k)]
        if not multi and cfg_nan and H.draw(5) == 0:
            comps = [float("nan")]  # a fitness function that is undefined for some programs
        hist.append({"text": H.pick(HOSTILE) + (str(i) if H.draw(2) else ""), "comps": comps})
    # how individuals are presented to tracker.evaluate: batch boundaries
    batches = []
    i = 0
    while i < n:
        b = 1 + (H.draw(4) if H.draw(2) else 0)
        batches.append(list(range(i, min(n, i + b))))
        i += b
    cfg["history"] = hist
    cfg["batches"] = batches
    # re-presentation of an already evaluated individual (it is registered again by the tracker)
    cfg["batch_forms"] = [H.pick(["list", "list", "iter", "generator"]) for _ in range(4)]
    cfg["represent"] = H.draw(4) == 3
    cfg["other_problem"] = H.draw(4) == 3
    # F15: one user callback of an extra field raises for one individual (part-way through its row); the caller catches the
    # exception and keeps using the tracker: the rows recorded afterwards must still be complete and their own
    # an extra field may be given the name of a column that already exists (it then REPLACES that column's content)
    base_names = ["Phenotype", "Fitness0"] if cfg["fields"] == "default" else ["prog", "last"]
    cfg["extra_names"] = [(H.pick(base_names) if H.draw(4) == 0 else f"extra{j}") for j in range(cfg["extra"])]
    cfg["callback_fault"] = [H.draw(n), H.draw(n)] if (H.draw(3) == 2 and cfg["extra"] and not cfg["only_best"]) else None
    return cfg


class World:
    def __init__(self, ctx, cfg, sched_seed, crash_at=None, short_den=0, enospc_after=None, jump_den=0):
        self.ctx = ctx
        self.cfg = cfg
        self.S2 = Chooser("S2", sched_seed)
        self.clock = SimClock(ctx, chooser=self.S2, jump_den=jump_den)
        self.fs = SimFS(ctx, short_den=short_den, enospc_after=enospc_after, chooser=self.S2)
        self.fs.crash_at = crash_at
        self.clock.on_event = self.fs.event
        self.in_reg = False
        self.model_rows: list[list] = []  # expected rows so far (values, not bytes)
        self.time_window: list[tuple[int, int]] = []  # per row: simulated interval of its registration
        self.boundary_len: list[int] = []  # image length after each completed registration
        self.constructed = False
        self.now_pre = 0
        self.completed = 0  # registrations completed
        self.presented = 0  # individuals handed to tracker.evaluate
        self.best_agg = None
        self.header = None
        self.problems = []
        self.path = "/simfs/run.csv"
        self.mismatch = None

    # -------- model
    def agg(self, comps):
        cfg = self.cfg
        if not cfg["multi"]:
            return -comps[0] if cfg["minimize"][0] else comps[0]
        if cfg["agg"]:
            return float(sum(comps)) * 2 - 1
        mins = cfg["minimize"] if not cfg["minimize_as_bool"] else [cfg["minimize"][0]] * cfg["k"]
        return sum(-c if m else c for c, m in zip(comps, mins))

    def expected_fields(self):
        cfg = self.cfg
        if cfg["fields"] == "default":
            names = ["Execution Time", "Phenotype"] + [f"Fitness{j}" for j in range(cfg["k"])]
        else:
            names = ["id", "prog", "last"]
        for nm in cfg["extra_names"]:
            if nm not in names:
                names.append(nm)
        return names

    def expected_row(self, ind, clock_value):
        cfg = self.cfg
        g = ind.genotype
        h = cfg["history"][g]
        if cfg["fields"] == "default":
            t = (clock_value - self.start_time) * 0.000000001 if clock_value is not None else None
            row = [t, self.progs[g].text] + [h["comps"][j] for j in range(cfg["k"])]
        else:
            row = [g, self.progs[g].text.upper(), h["comps"][-1]]
        names = ["Execution Time", "Phenotype"] + [f"Fitness{j}" for j in range(cfg["k"])] if cfg["fields"] == "default" else ["id", "prog", "last"]
        cells = dict(zip(names, row))
        for j, nm in enumerate(cfg["extra_names"]):
            cells[nm] = len(self.progs[g].text) + j if j % 2 == 0 else f"{g}:{self.progs[g].text[:3]}"
        return [cells[nm] for nm in self.expected_fields()]

    @staticmethod
    def render(header, rows) -> bytes:
        s = io.StringIO(newline="")
        w = csv.writer(s)
        w.writerow(header)
        for r in rows:
            w.writerow(r)
        return s.getvalue().encode("utf-8")

    # -------- oracle at registration boundary
    def after_registration(self, ind, is_best):
        cfg = self.cfg
        comps = cfg["history"][ind.genotype]["comps"]
        a = self.agg(comps)
        if cfg["multi"]:
            flag = is_best  # C12 judges the multi-objective flag; C20 follows what the tracker said
        else:
            flag = self.best_agg is None or a > self.best_agg
        if self.best_agg is None or a > self.best_agg:
            self.best_agg = a
        if not cfg["only_best"] or flag:
            # the time cell may be any instant inside the registration (the property does not fix it)
            self.model_rows.append(self.expected_row(ind, None))
            self.time_window.append((self.now_pre, self.clock.now))
        self.completed += 1
        self.check_image("after-registration")
        self.boundary_len.append(len(self.fs.image(self.path)))

    def check_image(self, where):
        if self.mismatch:
            return
        cause = compare(self, self.fs.image(self.path))
        if cause:
            self.mismatch = (where, cause)

    # -------- run the scripted history against the real recorder/tracker
    def execute(self):
        from geneticengine.evaluation.recorder import CSVSearchRecorder
        from geneticengine.evaluation.sequential import SequentialEvaluator
        from geneticengine.evaluation.tracker import MultiObjectiveProgressTracker, SingleObjectiveProgressTracker
        from geneticengine.problems import MultiObjectiveProblem, SingleObjectiveProblem
        from geneticengine.solutions.individual import Individual

        cfg = self.cfg
        ctx = self.ctx
        hist = cfg["history"]
        self.progs = [Prog(i, h["text"]) for i, h in enumerate(hist)]
        rep = FakeRep(self.progs)
        fs = self.fs

        def ff_single(p):
            fs.event("fitness")
            self.clock.advance(1_000_000)
            return hist[p.pid]["comps"][0]

        def ff_multi(p):
            fs.event("fitness")
            self.clock.advance(1_000_000)
            return list(hist[p.pid]["comps"])

        if cfg["multi"]:
            minimize = cfg["minimize"][0] if cfg["minimize_as_bool"] else list(cfg["minimize"])
            kw = {}
            if cfg["agg"]:
                kw["aggregate_fitness"] = lambda comps: float(sum(comps)) * 2 - 1
            problem = MultiObjectiveProblem(minimize, ff_multi, **kw)
            if cfg["minimize_as_bool"]:
                # number_of_objectives is only known after one evaluation: the documented usage
                saved, fs.crash_at = fs.crash_at, None
                problem.evaluate(Prog(0, hist[0]["text"]))
                fs.crash_at = saved
                fs.n_events = 0
                fs.event_kinds.clear()
        else:
            problem = SingleObjectiveProblem(ff_single, minimize=cfg["minimize"][0])
        self.problems.append(problem)

        fields = None
        if cfg["fields"] == "custom":
            fields = {
                "id": lambda t, i, p: i.genotype,
                "prog": lambda t, i, p: str(i.get_phenotype()).upper(),
                "last": lambda t, i, p: i.get_fitness(p).fitness_components[-1],
            }
        extra = None
        if cfg["extra"]:
            extra = {}
            self.armed = None

            def failing(j, inner):
                def f(t, i, p):
                    if self.armed is not None and i.genotype == self.armed and j == cfg["extra"] - 1:
                        raise ZeroDivisionError("injected by the simulator: extra-field callback fails")
                    return inner(t, i, p)
                return f

            for j in range(cfg["extra"]):
                if j % 2 == 0:
                    extra[cfg["extra_names"][j]] = failing(j, (lambda j: lambda t, i, p: len(str(i.get_phenotype())) + j)(j))
                else:
                    extra[cfg["extra_names"][j]] = failing(j, lambda t, i, p: f"{i.genotype}:{str(i.get_phenotype())[:3]}")
        self.header = self.expected_fields()
        with installed_clock(self.clock), installed_fs(fs):
            rec = CSVSearchRecorder(self.path, problem, fields=fields, extra_fields=extra,
                                    only_record_best_individuals=cfg["only_best"])
            self.constructed = True
            fs.event("constructed")
            # header must be on disk right after construction
            self.check_image("after-construction")
            self.boundary_len.append(len(fs.image(self.path)))
            recorders = [Probe(self, True), rec, Probe(self, False)]
            if cfg["multi"]:
                tracker = MultiObjectiveProgressTracker(problem, SequentialEvaluator(), recorders=recorders)
            else:
                tracker = SingleObjectiveProgressTracker(problem, SequentialEvaluator(), recorders=recorders)
            self.start_time = tracker.start_time
            inds = [Individual(i, rep) for i in range(len(hist))]
            if cfg.get("other_problem"):
                # F12: some individuals were evaluated before under ANOTHER problem, which is still alive
                other = SingleObjectiveProblem(lambda p: -777.0 - p.pid, minimize=False) if not cfg["multi"] else \
                    MultiObjectiveProblem([False] * cfg["k"], lambda p: [-777.0 - p.pid - j for j in range(cfg["k"])])
                self.problems.append(other)
                for ind in inds[::2]:
                    ind.set_fitness(other, other.evaluate(ind.get_phenotype()))
            for bi, batch in enumerate(cfg["batches"]):
                group = [inds[i] for i in batch]
                if cfg["represent"] and bi % 3 == 2:
                    group.append(inds[batch[0] - 1] if batch[0] > 0 else inds[batch[0]])
                # the tracker accepts any iterable of individuals, one-shot ones included
                form = cfg["batch_forms"][bi % len(cfg["batch_forms"])]
                self.presented += len(group)
                tracker.evaluate(group if form == "list" else (iter(group) if form == "iter" else (x for x in group)))
                fs.event("between-batches")
                tracker.get_elapsed_time()
            if self.completed < self.presented and not self.mismatch:
                # every individual handed to the tracker is registered, hence has its row
                self.mismatch = ("at-end", "fewer-registrations-than-individuals-presented")
            if cfg.get("callback_fault"):
                x, y = (inds[i] for i in cfg["callback_fault"])
                self.armed = x.genotype
                ctx.faults["callback_error"] += 1
                try:
                    tracker.evaluate([x])
                except ZeroDivisionError:
                    pass
                self.armed = None
                self.in_reg = False
                self.check_image("after-failed-registration")  # nothing of the failed row may be on disk
                tracker.evaluate([y])
        try:
            rec.csv_file.close()
        except Exception:
            pass
        self.check_image("at-end")


def compare(world, img: bytes):
    """None if the disk image is header + exactly the model's rows, complete lines only;
    otherwise the cause class -- computed from the structure, never free text."""
    want = world.render(world.header, world.model_rows)
    try:
        got_rows = list(csv.reader(io.StringIO(img.decode("utf-8"), newline="")))
    except Exception:
        return "undecodable"
    want_rows = list(csv.reader(io.StringIO(want.decode("utf-8"), newline="")))
    if not got_rows:
        return "empty-file"
    if got_rows[0] != want_rows[0]:
        return "header"
    if not (img.endswith(b"\n") or img.endswith(b"\r")):
        return "torn-row"
    if len(got_rows) < len(want_rows):
        return "missing-rows"
    if len(got_rows) > len(want_rows):
        return "extra-rows"
    names = want_rows[0]
    for r, (g, w) in enumerate(zip(got_rows, want_rows)):
        if r == 0 or g == w:
            continue
        if len(g) != len(w):
            return "row-arity"
        for c, (gc, wc) in enumerate(zip(g, w)):
            name = names[c]
            if name == "Execution Time" and world.cfg["fields"] == "default":
                lo, hi = world.time_window[r - 1]
                try:
                    t = float(gc)
                except ValueError:
                    return "execution-time"
                if not ((lo - world.start_time) * 1e-9 - 1e-6 <= t <= (hi - world.start_time) * 1e-9 + 1e-6):
                    return "execution-time"
                continue
            if gc != wc:
                if name.startswith("Fitness"):
                    j = int(name[7:])
                    k = world.cfg["k"]
                    others = {w[names.index(f"Fitness{x}")] for x in range(k) if x != j}
                    return "fitness-column-shows-other-component" if gc in others else "fitness-column-wrong"
                if name == "Phenotype":
                    return "phenotype"
                return "extra-field" if name.startswith("extra") else "custom-field"
    return None


def run_simplegp(ctx):
    """real SimpleGP search writing its CSV log through the simulated file: every row must be
    self-consistent (fitness and every extra column computed from that row's own program) and, at
    a kill between registrations (at a fitness invocation), the file holds complete rows only"""
    import csv as _csv
    from geml.simplegp import SimpleGP
    from ..spec import Built
    from ..seams import install_set_order

    H = ctx.H
    install_set_order()
    spec = {"classes": [{"name": "A0", "kind": "abc", "parent": None, "weight": None, "fields": []},
                        {"name": "C0", "kind": "data", "parent": "A0", "weight": None, "fields": [["f0", ["ann", ["int"], ["IntRange", 0, 99]]]]},
                        {"name": "C1", "kind": "data", "parent": "A0", "weight": None, "fields": [["f0", ["cls", "A0"]], ["f1", ["ann", ["str"], ["VarRange", ["a,b", "q\"", "x"]]]]]}],
            "start": "A0", "considered": ["C0", "C1"]}
    k = 1 + H.draw(3)
    n_extra = H.draw(4)
    only_best = bool(H.draw(2))
    mdir = bool(H.draw(2))  # direction
    mform = H.pick(["bool", "list"])  # one objective may be declared as `minimize=True` or as `minimize=[True]`
    pop = 4 + H.draw(6)
    evals = pop * (1 + H.draw(3))
    seed = H.draw(1000)
    sched_seed = ctx.S.draw(2**32)

    def comps_of(text):
        return [float((len(text) * (j + 3) + text.count("C1") * 7 + j) % 23) for j in range(k)]

    def extra_of(j, text):
        return [str(len(text)), str(text.count("(")), text[:4], str(text.count(","))][j]

    ctx.sample = {"mode": "simplegp", "objectives": k, "extra_fields": n_extra, "only_best": only_best, "population": pop, "evaluations": evals, "minimize": mdir, "minimize_given_as": mform}

    def execute(crash_at):
        S2 = Chooser("S2", sched_seed)
        clock = SimClock(ctx, chooser=S2)
        fs = SimFS(ctx, chooser=S2)
        fs.crash_at = crash_at
        clock.on_event = fs.event
        b = Built(spec)
        crashed = False
        try:
            g = b.extract()

            def ff(p):
                fs.event("fitness")
                c = comps_of(str(p))
                return c if (k > 1 or mform == "list") else c[0]

            extras = {f"x{j}": (lambda j: lambda p: extra_of(j, str(p)))(j) for j in range(n_extra)} or None
            with installed_clock(clock), installed_fs(fs):
                try:
                    gp = SimpleGP(fitness_function=ff, grammar=g, minimize=([mdir] * k if (k > 1 or mform == "list") else mdir), max_depth=4, max_time=10**6,
                                  max_evaluations=evals, csv_output="/simfs/simple.csv", csv_extra_fields=extras,
                                  only_record_best_individuals=only_best, seed=seed, population_size=pop, elitism=1, novelty=1,
                                  mutation_probability=0.5, crossover_probability=0.5)
                    gp.search()
                except SimCrash:
                    crashed = True
        finally:
            b.dispose()
        img = fs.image("/simfs/simple.csv") if "/simfs/simple.csv" in fs.files else None
        return img, crashed, fs

    try:
        img, _, fs0 = execute(None)
    except Exception as e:
        ctx.stat("foreign_failure:simplegp:" + type(e).__name__)
        return
    ctx.stat("simplegp_runs")
    if img is None:
        return

    def judge(img, where):
        try:
            rows = list(_csv.reader(io.StringIO(img.decode("utf-8"), newline="")))
        except Exception:
            ctx.violate(f"C20/simplegp/{where}/undecodable", "CSV not decodable")
            return False
        if img and not img.endswith(b"\n"):
            ctx.violate(f"C20/simplegp/{where}/torn-row", "file does not end with a complete row")
            return False
        if not rows:
            return True
        want_header = ["Execution Time", "Phenotype"] + [f"Fitness{j}" for j in range(k)] + [f"x{j}" for j in range(n_extra)]
        if rows[0] != want_header:
            ctx.violate(f"C20/simplegp/{where}/header", f"header {rows[0]} expected {want_header}")
            return False
        if only_best and k == 1:
            # "only strict improvements when so configured": with one objective every row strictly improves on the previous one
            try:
                vals = [float(r[2]) for r in rows[1:]]
            except (ValueError, IndexError):
                vals = []
            for x, y in zip(vals, vals[1:]):
                if not (y < x if mdir else y > x):
                    ctx.violate(f"C20/simplegp/{where}/best-only-log-holds-a-non-improvement",
                                f"best-only log of a one-objective run (minimize={mdir!r} given as {mform}) has Fitness0 {x} followed by {y}")
                    return False
        for r in rows[1:]:
            if len(r) != len(want_header):
                ctx.violate(f"C20/simplegp/{where}/row-arity", f"row {r}")
                return False
            text = r[1]
            c = comps_of(text)
            for j in range(k):
                if float(r[2 + j]) != c[j]:
                    ctx.violate(f"C20/simplegp/{where}/fitness-column-{'shows-other-component' if float(r[2 + j]) in c else 'wrong'}",
                                f"row for program {text!r}: Fitness{j}={r[2 + j]}, that program's component {j} is {c[j]}")
                    return False
            for j in range(n_extra):
                if r[2 + k + j] != extra_of(j, text):
                    others = {extra_of(x, text) for x in range(n_extra) if x != j}
                    ctx.violate(f"C20/simplegp/{where}/extra-field-{'shows-other-callback' if r[2 + k + j] in others else 'wrong'}",
                                f"row for program {text!r}: column x{j}={r[2 + k + j]!r}, callback {j} on that program gives {extra_of(j, text)!r}")
                    return False
        return True

    if not judge(img, "at-end"):
        return
    if len(img) > 0:
        ctx.nontrivial = True
    # kills at fitness invocations (always between two registrations)
    idx = [i for i, kd in enumerate(fs0.event_kinds) if kd == "fitness"]
    for _ in range(min(len(idx), 4)):
        j = idx[H.draw(len(idx))]
        cimg, crashed, _ = execute(j)
        if crashed and cimg is not None:
            ctx.stat("crash_points")
            ctx.stat("crash_between")
            if not img.startswith(cimg):
                ctx.violate("C20/simplegp/crash-between-registrations/not-a-prefix", f"kill at seam event {j}: the file is not a prefix of the full log")
                return
            if not judge(cimg, "crash-between-registrations"):
                return


def run(ctx):
    if ctx.H.draw(8) == 7:
        return run_simplegp(ctx)
    cfg = gen_config(ctx.H, ctx.tier)
    H = ctx.H
    sched_seed = ctx.S.draw(2**32)
    mode = H.weighted([("clean", 3), ("short", 2), ("enospc", 2), ("jump", 1)])
    n = len(cfg["history"])
    ctx.sample = {"config": {k: v for k, v in cfg.items() if k not in ("history",)},
                  "history": cfg["history"][:6], "fault_mode": mode}

    # 1. fault-free (or short-write / clock-jump schedule, which must not change the outcome)
    w = World(ctx, cfg, sched_seed, short_den=3 if mode == "short" else 0, jump_den=5 if mode == "jump" else 0)
    try:
        w.execute()
    except SimCrash:
        raise
    except Exception as e:
        ctx.violate(f"C20/exception/{type(e).__name__}", f"recording a history raised {type(e).__name__}: {e}")
        return
    if w.mismatch:
        where, cause = w.mismatch
        ctx.violate(f"C20/{where}/{cause}",
                    f"disk image differs from the model log {where}: {cause}; config={ctx.sample['config']}")
    n_events = w.fs.n_events
    full = w.fs.image(w.path)
    bounds = w.boundary_len
    ctx.stat("histories")
    ctx.stat("registrations", w.completed)
    ctx.stat("mode:" + mode)
    if w.model_rows:
        ctx.nontrivial = True
    if w.mismatch:
        return  # the prefix oracles below compare against this run's own log

    def prefix_ok(w2, img):
        """byte-prefix of the full log that contains every completed row"""
        r = w2.completed
        return full.startswith(img) and r < len(bounds) and len(img) >= bounds[r] and (r + 1 >= len(bounds) or len(img) <= bounds[r + 1])

    # 2. ENOSPC at a seeded byte budget: prefix rule
    if mode == "enospc":
        cap = H.draw(len(full) + 1)
        w2 = World(ctx, cfg, sched_seed, enospc_after=cap)
        try:
            w2.execute()
        except OSError:
            pass
        except SimCrash:
            raise
        except Exception as e:
            ctx.violate(f"C20/enospc/exception/{type(e).__name__}", f"{type(e).__name__}: {e}")
        img = w2.fs.image(w2.path) if w2.path in w2.fs.files else b""
        if w2.constructed and not prefix_ok(w2, img):
            ctx.violate("C20/enospc/not-a-prefix", f"after ENOSPC at byte {cap} the file ({len(img)} bytes, {w2.completed} "
                        f"registrations completed) is not a prefix of the full log containing all completed rows")
        ctx.stat("enospc_runs")

    # 3. crash points
    if ctx.tier == "thorough" and n <= 12:
        points = list(range(n_events))
    else:
        cnt = min(n_events, 10 if ctx.tier == "quick" else 24)
        points = sorted({H.draw(n_events) for _ in range(cnt)} | {0, n_events - 1}) if n_events else []
    for j in points:
        w3 = World(ctx, cfg, sched_seed, crash_at=j, short_den=3 if mode == "short" else 0, jump_den=5 if mode == "jump" else 0)
        crashed = False
        try:
            w3.execute()
        except SimCrash:
            crashed = True
        except Exception as e:
            ctx.violate(f"C20/crash-run/exception/{type(e).__name__}", f"{type(e).__name__}: {e}")
            continue
        if not crashed:
            continue
        ctx.stat("crash_points")
        kind = w3.fs.event_kinds[j] if j < len(w3.fs.event_kinds) else "?"
        if not w3.constructed:
            ctx.stat("crash_in_constructor")
            continue
        img = w3.fs.image(w3.path)
        if w3.mismatch:
            where, cause = w3.mismatch
            ctx.violate(f"C20/{where}/{cause}", f"(crash schedule) disk image differs from the model log {where}: {cause}")
        r = w3.completed
        if w3.in_reg:
            if not prefix_ok(w3, img):
                ctx.violate("C20/crash-inside-registration/not-a-prefix",
                            f"kill at seam event {j} ({kind}) inside registration {r}: image ({len(img)} bytes) is not a "
                            f"prefix of the full log that contains all completed rows")
            ctx.stat("crash_inside")
        else:
            if img != full[:bounds[r]]:
                cause = compare(w3, img) or "bytes-differ"
                ctx.violate(f"C20/crash-between-registrations/{cause}",
                            f"kill at seam event {j} ({kind}) after {r} completed registrations: image is not header + "
                            f"exactly the completed rows ({cause}); config={ctx.sample['config']}")
            ctx.stat("crash_between")
    ctx.log("done", n, n_events)
