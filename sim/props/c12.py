"""C12 -- the reported best individual really is the best one evaluated.

Simulated: histories (N7) -- the fitness function answers from a seeded script by invocation
index (ties, repeats, plateaus, late improvements, both directions); trackers driven directly
and through random search, hill climbing, (1+1) and GP with sequential evaluation.
Model (DESIGN A.6): best := first; replace iff strictly better in the declared direction.
"""
from __future__ import annotations

from ..gpworld import make_intrep
from ..seams import SimRandom

ID = "C12"
LEVEL = "exploration"
RULE = ("one run = one scripted fitness history (length <= 60 quick / 200 thorough over a small value alphabet: ties, repeats, "
        "plateaus, late improvements) x optimisation direction(s) x single- or multi-objective tracker x a driver (tracker "
        "driven directly in seeded batches, or random search / hill climbing / (1+1) / GP); at every registration the is_best "
        "flag, the tracker's current best and, at the end, the value returned by search() are compared with the model; "
        "non-trivial = the history contains at least one tie or non-improvement after the first evaluation and one improvement; "
        "distinct = distinct event-log digests")
COMPONENTS_REAL = ["geneticengine.evaluation.tracker.*", "geneticengine.problems.*", "geneticengine.problems.helpers",
                   "geneticengine.algorithms.{random_search,hill_climbing,one_plus_one}", "geneticengine.algorithms.gp.gp",
                   "geneticengine.evaluation.sequential.SequentialEvaluator"]
COMPONENTS_STUB = ["fitness function (scripted by invocation index)", "representation (integers)", "RandomSource.randint/random_float (SimRandom)"]
ASSUMPTIONS = ["no NaN fitness values", "multi-objective without user aggregate: aggregate = sum of components with minimised ones negated"]


def budget(tier):
    if tier == "thorough":
        return {"runs": 200000, "run_timeout": 120, "max_wall": 1500}
    return {"runs": 12000, "run_timeout": 60, "max_wall": 200}


class Probe:
    def __init__(self, st):
        self.st = st

    def register(self, tracker, individual, problem, is_best):
        self.st.on_register(tracker, individual, problem, is_best)


class State:
    def __init__(self, ctx, cfg):
        self.ctx = ctx
        self.cfg = cfg
        self.count = 0  # fitness invocations
        self.best = None  # model best aggregate
        self.seen_max = None
        self.n_reg = 0
        self.ties = 0
        self.improvements = 0
        self.value_of = {}  # id(program) -> components, to attribute a registration to its script entry
        self.evaluated = []  # aggregate of every fitness invocation, in order
        self.presented = 0  # individuals handed to tracker.evaluate
        self.registered = []  # every individual the tracker registered, in order
        self.seeded = []  # aggregates of already-evaluated individuals handed to a search as (part of) its initial population
        self.shadow = False  # True while ANOTHER problem over the same fitness function evaluates (history; not part of the script)
        # drivers in which every individual is registered right after its own evaluation (no evaluation ahead of the tracker)
        self.sync = cfg["driver"] in ("rs", "hc", "opo", "gp") or (cfg["driver"] == "direct" and not any(cfg["pre_evaluate"]))

    def script(self, i):
        h = self.cfg["history"]
        return h[i % len(h)]

    def agg(self, comps):
        cfg = self.cfg
        if not cfg.get("pmulti", cfg["multi"]):
            return -comps[0] if cfg["minimize"][0] else comps[0]
        return sum(-c if m else c for c, m in zip(comps, cfg["minimize"]))

    def on_register(self, tracker, ind, problem, is_best):
        ctx = self.ctx
        cfg = self.cfg
        self.n_reg += 1
        self.registered.append(ind)
        f = ind.get_fitness(problem)
        comps = list(f.fitness_components)
        a = self.agg(comps)
        driver = cfg["driver"]
        if not cfg["multi"]:
            want = self.best is None or a > self.best
            if self.best is not None and a == self.best:
                self.ties += 1
            if self.best is not None and want:
                self.improvements += 1
            if bool(is_best) != want:
                kind = "first" if self.best is None else ("tie" if a == self.best else ("improvement" if a > self.best else "worse"))
                ctx.violate(f"C12/flag/single/{kind}-flagged-{bool(is_best)}",
                            f"registration #{self.n_reg}: is_best={is_best} but the model says {want} (aggregate {a}, best so far {self.best}, minimise={cfg['minimize'][0]})")
            if want:
                self.best = a
            b = tracker.get_best_individual()
            if b is not None and self.sync and self.evaluated and self.agg(list(b.get_fitness(problem).fitness_components)) < max(self.evaluated):
                ctx.violate(f"C12/best/single/worse-than-an-evaluated-individual/at-registration",
                            f"at registration #{self.n_reg} the tracker's best has aggregate {self.agg(list(b.get_fitness(problem).fitness_components))} "
                            f"although an individual with aggregate {max(self.evaluated)} has already been evaluated")
            if b is None:
                ctx.violate("C12/best/single/none", "get_best_individual() is None after an evaluation")
            else:
                ba = self.agg(list(b.get_fitness(problem).fitness_components))
                if ba != self.best:
                    ctx.violate(f"C12/best/single/{'worse' if ba < self.best else 'other'}-than-model",
                                f"after registration #{self.n_reg} the tracker's best has aggregate {ba}, the best evaluated so far is {self.best}")
        else:
            if self.seen_max is None or a > self.seen_max:
                if self.seen_max is not None:
                    self.improvements += 1
                self.seen_max = a
            elif a == self.seen_max:
                self.ties += 1
            if is_best and a < self.seen_max:
                ctx.violate("C12/flag/multi/reported-best-below-best-seen",
                            f"registration #{self.n_reg}: an individual with aggregate {a} was reported best, best seen so far {self.seen_max}")
            if not is_best and a >= self.seen_max and self.n_reg == 1:
                ctx.violate("C12/flag/multi/first-not-flagged", "the first evaluated individual was not reported as best")
            bs = tracker.get_best_individuals()
            if not bs:
                ctx.violate("C12/best/multi/empty", "get_best_individuals() is empty after an evaluation")
            else:
                for b in bs:
                    ba = self.agg(list(b.get_fitness(problem).fitness_components))
                    if ba < self.seen_max:
                        ctx.violate("C12/best/multi/front-member-below-best-seen",
                                    f"after registration #{self.n_reg} a member of the reported best set has aggregate {ba} < best seen {self.seen_max}")
                        break


def gen(H, tier):
    multi = H.draw(3) == 2
    k = (1 + H.draw(3)) if multi else 1  # (a multi-objective problem may have a single objective: `minimize=[True]`)
    n = 2 + H.draw(60 if tier == "quick" else 200)
    alphabet = H.pick([[0, 1], [0, 1, 2, 3], [5, 5, 5, 7], [-2, -1, 0, 1, 2], [0.5, 0.25, 1e9, -1e9, 0]])
    hist = []
    level = H.pick(alphabet)
    for i in range(n):
        # plateaus with occasional changes
        if H.draw(3) == 0:
            level = H.pick(alphabet)
        hist.append([float(level if j == 0 else H.pick(alphabet)) for j in range(k)])
    cfg = {"multi": multi, "k": k, "minimize": [bool(H.draw(2)) for _ in range(k)], "history": hist,
            "driver": H.weighted([("direct", 4), ("rs", 2), ("hc", 2), ("opo", 2), ("gp", 3), ("gp_eval", 2)]),
            "pre_evaluate": [bool(H.draw(4) == 3) for _ in range(12)],
            "pop": 2 + H.draw(7), "hc_n": 1 + H.draw(5), "budget": 1 + H.draw(min(n, 40)),
            "batches": [1 + H.draw(5) for _ in range(8)],
            "other_problem": bool(H.draw(3) == 2),
            "batch_forms": [H.pick(["list", "list", "iter", "generator"]) for _ in range(4)],
            "rtype": H.pick(["float", "float", "float", "int", "np.float64", "np.int64", "np.uint8", "np.uint64"]),
            "seeded_restart": bool(H.draw(5) == 4),
            "default_aggregate": bool(H.draw(2)),
            "resume": H.pick([None, None, None, "again", "rs", "hc", "opo", "gp"]), "resume_extra": H.draw(12)}
    # cross pairing (round 8): a problem with several fitness components followed by a SINGLE-objective tracker, which the
    # algorithms accept; "multi" keeps meaning the tracker's kind, "pmulti" is the problem's kind
    cfg["pmulti"] = multi
    if multi and H.draw(4) == 0:
        cfg["multi"] = False
    return cfg


def run(ctx):
    from geneticengine.algorithms.gp.gp import GeneticProgramming
    from geneticengine.algorithms.hill_climbing import HC
    from geneticengine.algorithms.one_plus_one import OnePlusOne
    from geneticengine.algorithms.random_search import RandomSearch
    from geneticengine.evaluation.budget import EvaluationBudget
    from geneticengine.evaluation.sequential import SequentialEvaluator
    from geneticengine.evaluation.tracker import MultiObjectiveProgressTracker, SingleObjectiveProgressTracker
    from geneticengine.problems import MultiObjectiveProblem, SingleObjectiveProblem
    from geneticengine.solutions.individual import Individual

    cfg = gen(ctx.H, ctx.tier)
    st = State(ctx, cfg)
    rep = make_intrep()
    rnd = SimRandom(ctx, ctx.H.pick(["uniform", "edge", "native"]))

    cur = [st]  # the model of the tracker that is currently searching
    # the Python / numpy type in which the fitness function hands back its numbers (the library converts with float())
    flat = [x for h_ in cfg["history"] for x in h_]
    rtype = cfg["rtype"]
    if (rtype in ("int", "np.int64") and not all(float(x).is_integer() for x in flat)) or \
            (rtype in ("np.uint8", "np.uint64") and not all(float(x).is_integer() and 0 <= x <= 255 for x in flat)):
        rtype = "float"

    def returned(x):
        if rtype == "float":
            return x
        if rtype == "int":
            return int(x)
        import numpy as np

        return getattr(np, rtype[3:])(x)

    def ff_single(p):
        if st.shadow:
            return returned(st.script(p.v * 7 + 3)[0])
        v = st.script(st.count)[0]
        st.count += 1
        cur[0].evaluated.append(st.agg([v]))
        return returned(v)

    def ff_multi(p):
        if st.shadow:
            return [returned(x) for x in st.script(p.v * 7 + 3)]
        v = list(st.script(st.count))
        st.count += 1
        cur[0].evaluated.append(st.agg(v))
        return [returned(x) for x in v]

    if cfg.get("pmulti", cfg["multi"]):
        if cfg["default_aggregate"]:
            problem = MultiObjectiveProblem(list(cfg["minimize"]), ff_multi)  # the library's own aggregate: sum, minimised ones negated
        else:
            problem = MultiObjectiveProblem(list(cfg["minimize"]), ff_multi, aggregate_fitness=(lambda comps: st.agg(comps)))
        T0 = MultiObjectiveProgressTracker if cfg["multi"] else SingleObjectiveProgressTracker
        tracker = T0(problem, SequentialEvaluator(), recorders=[Probe(st)])
        if not cfg["multi"]:
            ctx.stat("single_tracker_on_multi_component_problem")
    else:
        problem = SingleObjectiveProblem(ff_single, minimize=cfg["minimize"][0])
        tracker = SingleObjectiveProgressTracker(problem, SequentialEvaluator(), recorders=[Probe(st)])
    # F13 (history): another, still-alive problem over the SAME fitness function with the opposite direction(s) has evaluated
    # the same Individual objects before the tracker sees them
    other = None
    if cfg["other_problem"]:
        if cfg.get("pmulti", cfg["multi"]):
            other = MultiObjectiveProblem([not m for m in cfg["minimize"]], ff_multi, aggregate_fitness=(lambda comps: -st.agg(comps)))
        else:
            other = SingleObjectiveProblem(ff_single, minimize=not cfg["minimize"][0])
    driver = cfg["driver"]
    ctx.sample = {k: v for k, v in cfg.items() if k != "history"}
    ctx.sample["history"] = cfg["history"][:12]
    result = "n/a"
    try:
        if driver == "direct":
            i = 0
            n = len(cfg["history"])
            bi = 0
            while i < n:
                b = cfg["batches"][bi % len(cfg["batches"])]
                bi += 1
                group = [Individual(i + j, rep) for j in range(min(b, n - i))]
                i += len(group)
                if cfg["pre_evaluate"][bi % len(cfg["pre_evaluate"])]:
                    # user code that evaluates (part of) a batch itself before handing it to the tracker (F12)
                    tracker.evaluator.evaluate(problem, group[: 1 + len(group) // 2])
                    ctx.faults["represent"] += 1
                if other is not None and bi % 2:
                    st.shadow = True
                    try:
                        SequentialEvaluator().evaluate(other, group)
                    finally:
                        st.shadow = False
                    ctx.faults["carry_over"] += 1
                st.presented += len(group)
                form = cfg["batch_forms"][bi % len(cfg["batch_forms"])]  # the tracker accepts any iterable, one-shot ones included
                tracker.evaluate(group if form == "list" else (iter(group) if form == "iter" else (x for x in group)))
        else:
            algo = {"rs": RandomSearch, "hc": HC, "opo": OnePlusOne, "gp": GeneticProgramming, "gp_eval": GeneticProgramming}[driver]
            kw = {}
            if driver == "gp_eval":
                # a step that evaluates the offspring itself before the tracker sees them
                from geneticengine.algorithms.gp.operators.combinators import ParallelStep, SequenceStep
                from geneticengine.algorithms.gp.operators.elitism import ElitismStep
                from geneticengine.algorithms.gp.operators.evaluation import EvaluateStep
                from geneticengine.algorithms.gp.operators.mutation import GenericMutationStep
                from geneticengine.algorithms.gp.operators.selection import TournamentSelection

                inner = SequenceStep(TournamentSelection(2 + ctx.H.draw(3)), GenericMutationStep(1.0), EvaluateStep())
                kw["step"] = inner if ctx.H.draw(2) else ParallelStep([ElitismStep(), inner], weights=[1, 4])
                kw["population_size"] = cfg["pop"]
            if driver == "hc":
                kw["number_of_mutations"] = cfg["hc_n"]
            if driver == "gp":
                kw["population_size"] = cfg["pop"]
            a = algo(problem=problem, budget=EvaluationBudget(cfg["budget"]), representation=rep, random=rnd, tracker=tracker, **kw)
            result = a.search()
            # F13 (history): the tracker goes on to serve a second search (search() again on the same object, or another
            # algorithm resumed on the same tracker with a larger budget); what that search returns is judged like the first
            resume = cfg["resume"]
            if resume == "again":
                ctx.faults["carry_over"] += 1
                result = a.search()
            elif resume is not None and driver != "gp_eval":
                ctx.faults["carry_over"] += 1
                algo2 = {"rs": RandomSearch, "hc": HC, "opo": OnePlusOne, "gp": GeneticProgramming}[resume]
                kw2 = {"number_of_mutations": cfg["hc_n"]} if resume == "hc" else ({"population_size": cfg["pop"]} if resume == "gp" else {})
                a2 = algo2(problem=problem, budget=EvaluationBudget(cfg["budget"] + cfg["resume_extra"]), representation=rep, random=rnd, tracker=tracker, **kw2)
                result = a2.search()
                driver = f"{resume}-resumed-after-{driver}"
            if cfg["seeded_restart"] and st.registered and not ctx.violations:
                # F13 (history): a SECOND GP search with its own fresh tracker starts from individuals that survived the first one
                # (they are already evaluated); its reported best must be at least as good as what it was seeded with
                from geneticengine.algorithms.gp.structure import PopulationInitializer

                st2 = State(ctx, {**cfg, "driver": "gp"})
                seeds = list(dict.fromkeys(st.registered))[-cfg["pop"]:][: 1 + ctx.H.draw(cfg["pop"])]

                class Seeded(PopulationInitializer):
                    def initialize(self, problem, representation, random, target_size):
                        for ind in seeds[:target_size]:
                            st2.seeded.append(st2.agg(list(ind.get_fitness(problem).fitness_components)))
                            yield ind
                        for _ in range(max(0, target_size - len(seeds))):
                            yield Individual(representation.create_genotype(random), representation)

                T = MultiObjectiveProgressTracker if cfg["multi"] else SingleObjectiveProgressTracker
                tracker = T(problem, SequentialEvaluator(), recorders=[Probe(st2)])
                cur[0] = st2
                st = st2
                ctx.faults["carry_over"] += 1
                ctx.stat("seeded_restarts")
                a3 = GeneticProgramming(problem=problem, budget=EvaluationBudget(1 + ctx.H.draw(3 * cfg["pop"])), representation=rep, random=rnd,
                                        tracker=tracker, population_size=cfg["pop"], population_initializer=Seeded())
                result = a3.search()
                driver = "gp-seeded-with-survivors"
    except Exception as e:
        from ..world import short_tb

        ctx.violate(f"C12/exception/{driver}/{type(e).__name__}", f"driver {driver} raised {short_tb(e)}")
        return
    if st.ties + 0 > 0 and st.improvements > 0:
        ctx.nontrivial = True
    # every individual handed to the tracker is registered, evaluated before or not
    if driver == "direct" and st.n_reg != st.presented:
        ctx.violate(f"C12/registrations/{'fewer' if st.n_reg < st.presented else 'more'}-than-presented",
                    f"{st.presented} individuals were handed to tracker.evaluate but {st.n_reg} were registered")
    # the reported best is at least as good as EVERY individual evaluated (these drivers hand every evaluated individual to the tracker)
    if st.evaluated and not cfg["multi"]:
        b = tracker.get_best_individual()
        top = max(st.evaluated)
        if b is not None and st.agg(list(b.get_fitness(problem).fitness_components)) < top:
            ctx.violate(f"C12/best/single/worse-than-an-evaluated-individual/{driver}",
                        f"at the end of {driver} the tracker's best has aggregate {st.agg(list(b.get_fitness(problem).fitness_components))} "
                        f"but an individual with aggregate {top} was evaluated")
    if st.seeded and result is not None and result != "n/a":
        ra = st.agg(list(result.get_fitness(problem).fitness_components))
        if ra < max(st.seeded):
            ctx.violate(f"C12/search-return/{'multi' if cfg['multi'] else 'single'}/{driver}/worse-than-its-seeded-individuals",
                        f"a GP search seeded with already-evaluated individuals (best aggregate {max(st.seeded)}) returned an individual with aggregate {ra}")
    if driver != "direct":
        # search() must return the very individual the tracker reports as best, and it must be the best evaluated
        if cfg["multi"]:
            bs = tracker.get_best_individuals()
            if result is None:
                ctx.violate(f"C12/search-return/multi/{driver}/none", f"{driver}.search() returned None on a multi-objective problem")
            elif not any(result is b for b in bs):
                ctx.violate(f"C12/search-return/multi/{driver}/not-in-best-set", f"{driver}.search() returned an individual outside the reported best set")
            elif st.agg(list(result.get_fitness(problem).fitness_components)) < st.seen_max:
                ctx.violate(f"C12/search-return/multi/{driver}/below-best-seen", "returned individual is worse than the best evaluated")
        else:
            if result is None:
                ctx.violate(f"C12/search-return/single/{driver}/none", f"{driver}.search() returned None")
            elif result is not tracker.get_best_individual():
                ctx.violate(f"C12/search-return/single/{driver}/not-the-tracked-best", f"{driver}.search() did not return the tracker's best individual")
            elif st.agg(list(result.get_fitness(problem).fitness_components)) != st.best:
                ctx.violate(f"C12/search-return/single/{driver}/not-best-value", f"{driver}.search() returned aggregate differs from the best evaluated {st.best}")
    ctx.stat("registrations", st.n_reg)
    ctx.stat("driver:" + driver)
