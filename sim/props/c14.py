"""C14 -- searches terminate and stop at the first budget check after the budget is met.

Simulated: N3 (SimClock under TimeBudget inside AnyOf; stalls and jumps), scripted fitness
landscapes (exact target hits or misses >= 1 away, so the tolerance constant is not part of the
oracle), step caps as bounded liveness.  Every budget is wrapped by a transparent probe that
records, at each is_done call, what the tracker reports and the answer.  Oracle: each answer
equals the model's (evals >= n, elapsed >= t, target hit, a or b); after the first True at the
top level no further fitness invocation happens and search() returns; the run ends within the
step cap; total evaluations in [n, n + batch).
"""
from __future__ import annotations

from ..core import SimStepCap
from ..gpworld import build_step, gen_step, make_intrep, step_kinds
from ..seams import SimClock, SimRandom, installed_clock

ID = "C14"
LEVEL = "exploration"
RULE = ("one run = one budget tree (EvaluationBudget n in 1..60, TargetFitness, TimeBudget on the simulated clock, AnyOf nesting <= 3) "
        "x algorithm (random search, (1+1), hill climbing with neighbourhood 1..12, GP with population 2..12 and the default or a "
        "generated step) x a scripted fitness landscape x clock schedule (costs, stalls, jumps); non-trivial = the search ran at "
        "least two budget checks; distinct = distinct event-log digests")
COMPONENTS_REAL = ["geneticengine.evaluation.budget.*", "geneticengine.evaluation.tracker.*", "geneticengine.algorithms.api",
                   "geneticengine.algorithms.{random_search,hill_climbing,one_plus_one}", "geneticengine.algorithms.gp.gp", "geneticengine.algorithms.gp.operators.*"]
COMPONENTS_STUB = ["time.monotonic_ns (SimClock)", "fitness function (scripted)", "representation (integers)", "RandomSource primitives (SimRandom)"]
ASSUMPTIONS = ["liveness is bounded: a search that performs 50x the expected number of seam steps without returning is reported as non-terminating",
               "step compositions that cannot create an unevaluated individual are run in a separate stratum"]


def budget(tier):
    if tier == "thorough":
        return {"runs": 120000, "run_timeout": 120, "max_wall": 1500}
    return {"runs": 8000, "run_timeout": 60, "max_wall": 200}


class World:
    pass


def gen_budget(H, depth=0):
    if depth < 2 and H.draw(3) == 0:
        return ["any", gen_budget(H, depth + 1), gen_budget(H, depth + 1)]
    k = H.weighted([("evals", 5), ("target", 2), ("time", 2)])
    if k == "evals":
        return ["evals", 1 + H.draw(60)]
    if k == "target":
        return ["target", float(H.pick([3, 7, 50, 1000, 10**5, 10**7, 0, -5]))]
    return ["time", H.pick([0.001, 0.05, 0.5, 2.0])]


def has_kind(b, k):
    return b[0] == k or (b[0] == "any" and (has_kind(b[1], k) or has_kind(b[2], k)))


def discards_evaluated(desc):
    """does the step evaluate individuals it may then drop (a selecting step placed after a creating one in a sequence)?
    Such individuals never reach the tracker, so 'best fitness' can only mean the tracker's best there."""
    if desc[0] == "sequence":
        created = False
        for d in desc[1]:
            kinds = set(step_kinds(d))
            if created and kinds & {"tournament", "elitism", "lexicase"}:
                return True
            if kinds & {"novelty", "mutation", "crossover"}:
                created = True
    if desc[0] in ("sequence", "parallel", "exclusive"):
        return any(discards_evaluated(d) for d in desc[1])
    return False


def judge_return(ctx, st, algo, bdesc, batch, tracker, stratum, step_desc, which, every_evaluated_is_kept=False):
    if not st.log or not st.log[-1][1]:
        ctx.violate(f"C14/returned-before-budget-met/{algo}", f"{which}: search() returned although the last budget check answered False ({st.log[-3:]})")
    trues = [i for i, (_, ans) in enumerate(st.log) if ans]
    if trues and trues[0] != len(st.log) - 1:
        ctx.violate(f"C14/kept-running-after-budget-met/{algo}", f"{which}: the budget answered True at check #{trues[0] + 1} but {len(st.log)} checks were made")
    # pure evaluation budget: total in [n, n + batch)
    # (with a generated step the bound holds as well, provided the step never evaluates individuals it then drops: the new
    # population has the population size, so at most that many evaluations happen between two checks)
    if bdesc[0] == "evals" and stratum == "normal" and (step_desc is None or every_evaluated_is_kept):
        n = bdesc[1]
        if not (n <= st.invocations < n + batch):
            ctx.violate(f"C14/total-evaluations/{algo}/{'under' if st.invocations < n else 'over'}",
                        f"{which}: {algo} with EvaluationBudget({n}) and batch {batch} performed {st.invocations} evaluations")


def run(ctx):
    from geneticengine.algorithms.gp.gp import GeneticProgramming
    from geneticengine.algorithms.hill_climbing import HC
    from geneticengine.algorithms.one_plus_one import OnePlusOne
    from geneticengine.algorithms.random_search import RandomSearch
    from geneticengine.evaluation.budget import AnyOf, EvaluationBudget, SearchBudget, TargetFitness, TimeBudget
    from geneticengine.evaluation.sequential import SequentialEvaluator
    from geneticengine.evaluation.tracker import SingleObjectiveProgressTracker
    from geneticengine.problems import SingleObjectiveProblem

    H = ctx.H
    bdesc = gen_budget(H)
    # a budget made only of targets/time may never fire on its own: always bound by evaluations at the top
    if not has_kind(bdesc, "evals"):
        bdesc = ["any", bdesc, ["evals", 1 + H.draw(60)]]
    algo = H.weighted([("rs", 2), ("opo", 2), ("hc", 2), ("gp", 4)])
    pop = 1 + H.draw(12)
    hc_n = 1 + H.draw(12)
    minimize = bool(H.draw(2))
    step_desc = None
    stratum = "normal"
    if algo == "gp" and H.draw(3) == 0:
        step_desc = gen_step(H, max_depth=2, allow=("elitism", "novelty", "tournament", "mutation", "crossover"))
        kinds = set(step_kinds(step_desc))
        if not (kinds & {"novelty", "mutation", "crossover"}):
            stratum = "starving"
    model_ok = step_desc is None or not discards_evaluated(step_desc)
    # landscape: values are multiples of 1.0; the target is hit exactly at a seeded invocation or never
    hit_at = H.draw(80) if H.draw(2) else None
    targets = []

    def collect(b):
        if b[0] == "target":
            targets.append(b[1])
        elif b[0] == "any":
            collect(b[1])
            collect(b[2])

    collect(bdesc)
    hit_value = H.pick(targets) if (targets and hit_at is not None) else None
    # a near miss on the worse side of the value that hits: 5e-4 away (the tolerance is 1e-4)
    near_at = H.draw(80) if (hit_value is not None and H.draw(2)) else None
    near_value = (hit_value + (5e-4 if minimize else -5e-4)) if near_at is not None else None
    clock = SimClock(ctx, read_costs=(0, 1000, 250_000, 3_000_000, 40_000_000), jump_den=(7 if H.draw(3) == 0 else 0))
    st = World()
    st.invocations = 0
    st.model_best = None
    st.steps = 0
    st.done_at = None  # invocation count when the top-level budget first answered True
    st.checks = 0
    st.log = []
    batch = {"rs": 1, "opo": 1, "hc": hc_n, "gp": pop}[algo]
    n_evals = [b for b in [bdesc] if b]
    expected = 60 + 2 * batch
    cap = 2500 + 25 * expected

    st.last_progress = 0  # step index of the last fitness invocation

    def step():
        st.steps += 1
        if st.steps > cap:
            raise SimStepCap("search did not return")

    def ff(p):
        step()
        i = st.invocations
        st.invocations += 1
        st.last_progress = st.steps
        clock.advance(1_000_000 * (1 + (i % 3)))
        if st.done_at is not None:
            ctx.violate(f"C14/evaluation-after-budget-met/{algo}", f"fitness invoked (#{i + 1}) after the budget check had answered True at {st.done_at} invocations")
        if hit_value is not None and i == hit_at:
            v = hit_value
        elif near_value is not None and i == near_at:
            v = near_value  # better than everything else, but NOT within the tolerance of the target
        else:
            # never within 1 of any target; on the worse side of the value that hits (so that the hit becomes the best)
            off = float(2 * (i % 11) + 100)
            worse = 1.0 if (minimize or hit_value is None) else -1.0
            v = off if hit_value is None else hit_value + worse * off
            big = [t for t in targets if t >= 10**4]
            if big and i % 3 == 1:
                v = big[i % len(big)] + (1.0 if i % 2 else -1.5)  # a near miss, in absolute terms, on a large target
            while any(abs(v - t) < 1 for t in targets):
                v += 2.0 * worse
        # the model's best fitness: every individual these algorithms evaluate is handed to the tracker at once
        if st.model_best is None or (v < st.model_best if minimize else v > st.model_best):
            st.model_best = v
        return v

    problem = SingleObjectiveProblem(ff, minimize=minimize)
    rep = make_intrep()
    orig_create = rep.create_genotype

    def counted_create(random, **kw):
        step()
        return orig_create(random, **kw)

    rep.create_genotype = counted_create
    rnd = SimRandom(ctx, H.pick(["uniform", "edge", "native"]))

    class Probe(SearchBudget):
        def __init__(self, inner, desc, top=False):
            self.inner = inner
            self.desc = desc
            self.top = top

        def is_done(self, tracker):
            step()
            evals = tracker.get_number_evaluations()
            ans = self.inner.is_done(tracker)
            d = self.desc
            if d[0] == "evals":
                want = evals >= d[1]
                if bool(ans) != want:
                    ctx.violate(f"C14/answer/evals/{'early' if ans else 'late'}", f"EvaluationBudget({d[1]}).is_done answered {ans} with {evals} evaluations")
            elif d[0] == "target":
                best = tracker.get_best_individual()
                if model_ok:
                    hit = st.model_best is not None and abs(st.model_best - d[1]) < 1e-4
                else:
                    hit = best is not None and best.get_fitness(problem).fitness_components[0] == d[1]
                if bool(ans) != hit:
                    ctx.violate(f"C14/answer/target/{'early' if ans else 'late'}",
                                f"TargetFitness({d[1]}).is_done answered {ans}; best fitness evaluated so far {st.model_best} (minimise={minimize}), "
                                f"tracker's best={None if best is None else best.get_fitness(problem).fitness_components}")
            elif d[0] == "time":
                pass  # judged by the clock window below
            if self.top:
                st.checks += 1
                st.log.append((evals, bool(ans)))
                if ans and st.done_at is None:
                    st.done_at = st.invocations
            return ans

    class TimeProbe(SearchBudget):
        def __init__(self, t):
            self.t = t
            self.inner = TimeBudget(t)

        def is_done(self, tracker):
            before = clock.now
            ans = self.inner.is_done(tracker)
            after = clock.now
            lo = (before - tracker.start_time) * 1e-9
            hi = (after - tracker.start_time) * 1e-9
            if ans and hi < self.t - 1e-12:
                ctx.violate("C14/answer/time/early", f"TimeBudget({self.t}) answered True although at most {hi}s of simulated time had elapsed")
            if not ans and lo >= self.t + 1e-12:
                ctx.violate("C14/answer/time/late", f"TimeBudget({self.t}) answered False although at least {lo}s of simulated time had elapsed")
            return ans

    target_forms = [H.pick(["float", "float", "int", "np.int64", "np.float32"]) for _ in range(3)]
    built_targets = []

    def build(b, top=False):
        if b[0] == "evals":
            return Probe(EvaluationBudget(b[1]), b, top)
        if b[0] == "target":
            # the target may be written as an int or a numpy scalar (the budget converts it)
            tv = b[1]
            form = target_forms[len(built_targets) % len(target_forms)]
            built_targets.append(form)
            if form == "int" and float(tv).is_integer():
                tv = int(tv)
            elif form == "np.float32" and float(tv).is_integer() and abs(tv) < 2**20:
                import numpy as np

                tv = np.float32(tv)
            elif form == "np.int64" and float(tv).is_integer():
                import numpy as np

                tv = np.int64(tv)
            return Probe(TargetFitness(tv), b, top)
        if b[0] == "time":
            return Probe(TimeProbe(b[1]), b, top)
        a, c = build(b[1]), build(b[2])
        inner = AnyOf(a, c)

        class AnyProbe(SearchBudget):
            def is_done(self, tracker):
                n0 = (len(a_log), len(c_log))
                ans = inner.is_done(tracker)
                ra = a_log[n0[0]:]
                rc = c_log[n0[1]:]
                want = (ra and ra[-1]) or (rc and rc[-1]) or False
                if bool(ans) != bool(want):
                    ctx.violate("C14/answer/anyof", f"AnyOf answered {ans} although its members answered {ra} / {rc}")
                return ans

        a_log, c_log = [], []
        for probe, lg in ((a, a_log), (c, c_log)):
            orig = probe.is_done

            def wrapped(tracker, __orig=orig, __lg=lg):
                r = __orig(tracker)
                __lg.append(bool(r))
                return r

            probe.is_done = wrapped
        return Probe(AnyProbe(), ["anyof"], top)

    ctx.sample = {"budget": bdesc, "algorithm": algo, "population": pop, "neighbourhood": hc_n, "step": step_desc,
                  "target_hit_at": hit_at, "stratum": stratum, "minimize": minimize}
    ctx.stat("stratum:" + stratum)
    returned = False
    reuse = H.draw(3) == 2  # F13: the same budget object drives a second search in the same process
    default_evaluator = bool(H.draw(2))  # the tracker is built without naming an evaluator (library default)
    eval_in_pipeline = algo == "gp" and stratum == "normal" and H.draw(3) == 0
    ctx.sample["evaluate_step_last"] = eval_in_pipeline
    # warm start: the initial population was scored before under another problem that is still alive, and that
    # earlier score equals one of the targets (only the fitness under the problem being searched may stop the search)
    screened = algo == "gp" and H.draw(3) == 0
    ctx.sample["screened_initial_population"] = screened
    proxy_value = float(targets[0]) if targets else 12345.0
    proxy = SingleObjectiveProblem(lambda p: proxy_value, minimize=minimize)

    from geneticengine.algorithms.gp.operators.initializers import StandardInitializer

    class Screened(StandardInitializer):
        def initialize(self, problem, representation, random, target_size, **kwargs):
            for ind in super().initialize(problem, representation, random, target_size, **kwargs):
                ind.set_fitness(proxy, proxy.evaluate(ind.get_phenotype()))
                yield ind

    with installed_clock(clock):
        top = build(bdesc, top=True)
        for attempt in range(2 if reuse else 1):
            if attempt == 1:
                if not returned or ctx.violations:
                    break
                ctx.faults["carry_over"] += 1
                # fresh search state, same budget instance
                st.invocations = 0
                st.model_best = None
                st.done_at = None
                st.checks = 0
                st.log = []
                st.steps = 0
                st.last_progress = 0
                returned = False
            tracker = SingleObjectiveProgressTracker(problem) if default_evaluator else SingleObjectiveProgressTracker(problem, SequentialEvaluator())
            kw = {}
            if algo == "hc":
                kw["number_of_mutations"] = hc_n
            if algo == "gp":
                kw["population_size"] = pop
                if screened:
                    ctx.faults["carry_over"] += 1
                    kw["population_initializer"] = Screened()
                if step_desc is not None:
                    kw["step"] = build_step(step_desc)
                if eval_in_pipeline:
                    # the offspring are evaluated inside the step (EvaluateStep last), before the population registers them
                    from geneticengine.algorithms.gp.gp import default_generic_programming_step
                    from geneticengine.algorithms.gp.operators.combinators import SequenceStep
                    from geneticengine.algorithms.gp.operators.evaluation import EvaluateStep

                    kw["step"] = SequenceStep(kw.get("step") or default_generic_programming_step(), EvaluateStep())
            cls = {"rs": RandomSearch, "opo": OnePlusOne, "hc": HC, "gp": GeneticProgramming}[algo]
            try:
                a = cls(problem=problem, budget=top, representation=rep, random=rnd, tracker=tracker, **kw)
                a.search()
                returned = True
            except SimStepCap:
                starved = st.steps - st.last_progress > 1500  # no evaluation for >1500 seam steps: the step yields no unevaluated individual
                ctx.violate(f"C14/liveness/{algo}/{'no-unevaluated-offspring' if starved else 'no-return'}/{'generated-step' if step_desc is not None else 'default-step'}",
                            f"{algo} did not return within {cap} seam steps ({st.invocations} evaluations, {st.checks} budget checks; budget {bdesc}; step {step_desc})")
                break
            except Exception as e:
                from ..world import short_tb

                ctx.stat("foreign_failure:" + type(e).__name__)
                ctx.log("exception", type(e).__name__)
                return
            if returned:
                judge_return(ctx, st, algo, bdesc, batch, tracker, stratum, step_desc, "second-search-same-budget-object" if attempt else "first-search",
                             every_evaluated_is_kept=model_ok)
    if st.checks >= 2:
        ctx.nontrivial = True
    ctx.stat("budget_checks", st.checks)
    ctx.stat("algo:" + algo)
