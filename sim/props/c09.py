"""C09 -- operators and steps never modify their inputs.

Simulated: N1, long operation histories (N7) mixing representation-level mutation/crossover
with applications of generated step trees (depth <= 3) to the population handed over as a
list, a Population object or a one-shot iterator (F11), with already-evaluated and duplicate
individuals re-presented (F12).  The pool keeps EVERY individual ever produced with a deep
structural snapshot (program/genes, all gengy_* labels, synthesis contexts, cached phenotype,
fitness_store); after every operation every snapshot is recomputed and compared -- checking
the whole pool, not just the arguments, is what decides the aliasing clause.
"""
from __future__ import annotations

from ..snap import SnapshotTooLarge
from ..gpworld import build_step, gen_step, individual_snapshot, snapshot_violation, structural_hash, step_kinds
from ..ref import canon
from ..spec import features
from ..core import SimStepCap
from ..seams import reset_gene_read_cap
from ..world import SynthWorld, make_world, exc_site

ID = "C09"
LEVEL = "exploration"
RULE = ("one run = one generated grammar x representation x decider x random policy x a history of operations over a growing pool "
        "of individuals: representation-level mutate/crossover and applications of generated step trees (elitism, novelty, "
        "tournament, lexicase, mutation, crossover, sequence, parallel, exclusive parallel; nesting <= 3) on lists, Population "
        "objects and one-shot iterators, results fully consumed; after each operation every individual ever produced is "
        "re-snapshotted; non-trivial = at least one step or operator ran on a pool of >= 2 evaluated individuals; distinct = "
        "distinct event-log digests")
COMPONENTS_REAL = ["geneticengine.representations.*", "geneticengine.algorithms.gp.operators.*", "geneticengine.algorithms.gp.population.Population",
                   "geneticengine.evaluation.sequential.SequentialEvaluator", "geneticengine.solutions.individual.Individual", "geneticengine.problems.*"]
COMPONENTS_STUB = ["RandomSource.randint/random_float (SimRandom)", "fitness function (structural hash of the program)"]
ASSUMPTIONS = ["an operator that must evaluate may ADD a missing fitness or phenotype cache to an input individual, never change an existing one",
               "Individual.metadata (e.g. the generation tag written by Population) is not node metadata and is not compared"]

FEAT = features(list=2, annlist=2, union=1, tuple=1, cls=8, refined=3, nested=1, standalone=1, dependent=1, concrete_start=2, flaky=1, self_ref=1, nested_list=1, falsy=1, future_annotations=1)


def budget(tier):
    if tier == "thorough":
        return {"runs": 60000, "run_timeout": 180, "max_wall": 1500}
    return {"runs": 3000, "run_timeout": 60, "max_wall": 200}


def directed(tier):
    """the shipped grammars and the test-suite hierarchies (real classes) under seeded configurations"""
    from ..world import corpus_directed

    return corpus_directed(tier, per_spec_quick=2, per_spec_thorough=8)


def run(ctx):
    from geneticengine.algorithms.gp.population import Population
    from geneticengine.evaluation.sequential import SequentialEvaluator
    from geneticengine.evaluation.tracker import MultiObjectiveProgressTracker, SingleObjectiveProgressTracker
    from geneticengine.problems import MultiObjectiveProblem, SingleObjectiveProblem
    from geneticengine.solutions.individual import Individual

    H = ctx.H
    w = make_world(ctx, FEAT, gene_lengths=(3, 8, 32, 64))
    import contextlib

    es = contextlib.ExitStack()
    try:
        ctx.sample = w.describe()
        if not w.extract().ok:
            ctx.stat("foreign_failure:extract")
            return
        if not w.construct().ok:
            ctx.stat("foreign_failure:construct")
            return
        kind = w.rep_kind
        w.random.op_cap = 2500  # every snapshot is re-taken after every operation: keep programs small
        multi = H.draw(3) == 2
        invocations = []

        ref = w.ref  # (closures must not capture the world: individuals cross the simulated process boundary with their fitness store)

        def h(p):
            return structural_hash(canon(p, ref))

        nan_some = H.draw(3) == 2  # a fitness function that is undefined (NaN) for some programs

        def ff_single(p):
            invocations.append(1)
            x = h(p) % 17
            return float("nan") if (nan_some and x % 5 == 3) else float(x)

        def ff_multi(p):
            invocations.append(1)
            x = h(p)
            return [float(x % 5), float((x // 5) % 4), float((x // 20) % 3)]

        if multi:
            problem = MultiObjectiveProblem([bool(H.draw(2)), bool(H.draw(2)), bool(H.draw(2))], ff_multi)
        else:
            problem = SingleObjectiveProblem(ff_single, minimize=bool(H.draw(2)))
        problems = [("p", problem)]
        parallel = H.draw(5) == 4
        if parallel:
            from geneticengine.evaluation.parallel import ParallelEvaluator

            evaluator = ParallelEvaluator()
            ctx.stat("parallel_evaluator_runs")
            from ..seams import installed_pool

            es.enter_context(installed_pool(ctx))
        else:
            evaluator = SequentialEvaluator()
        pool: list = []
        snaps: list = []
        w.install_flaky()

        def add(ind):
            for x in pool:
                if x is ind:
                    return
            pool.append(ind)
            snaps.append(individual_snapshot(ind, kind, w.ref, problems))

        def check(after):
            for idx, ind in enumerate(pool):
                now = individual_snapshot(ind, kind, w.ref, problems)
                cause = snapshot_violation(snaps[idx], now)
                if cause:
                    ctx.violate(f"C09/{cause}/{after.split(':')[0]}",
                                f"after {after} on {kind}, individual #{idx} of the pool changed: {cause}")
                    return False
                snaps[idx] = now
            # aliasing clause: two individuals owning ONE fitness cache object -- whatever a later step records about the
            # one (evaluation of an offspring) is then written into the other (its parent, an input of an earlier step)
            owner = {}
            for idx, ind in enumerate(pool):
                fs = getattr(ind, "fitness_store", None)
                if fs is None:
                    continue
                first = owner.setdefault(id(fs), idx)
                if first != idx:
                    ctx.violate(f"C09/fitness-cache-shared-between-individuals/{after.split(':')[0]}",
                                f"after {after} on {kind}, individuals #{first} and #{idx} of the pool are distinct objects that share one fitness_store object")
                    return False
            return True

        # initial population
        n0 = 2 + H.draw(7)
        def rebuild(v):
            """the same program written by hand: plain constructor calls, no metadata of the library on any node"""
            if isinstance(v, list):
                return [rebuild(e) for e in v]
            if type(v) is tuple:
                return tuple(rebuild(e) for e in v)
            n = ref.cls_of(v)
            if n is None:
                return v
            return type(v)(*[rebuild(ref.field(v, n, fn)) for fn, _ in ref.cls[n]["fields"]])

        for _ in range(n0):
            r = w.op_create()
            if r.ok:
                add(Individual(w.pool[r.new[0]], w.rep))
                if kind == "tree" and H.draw(4) == 0:
                    # a hand-written program among the inputs (what InjectInitialPopulationWrapper is given)
                    try:
                        add(Individual(rebuild(w.pool[r.new[0]]), w.rep))
                        ctx.stat("hand_written_inputs")
                    except Exception:
                        ctx.stat("foreign_failure:rebuild")
        if len(pool) < 2:
            ctx.stat("foreign_failure:no-population")
            return
        pre_eval = H.draw(4) != 0
        if pre_eval:
            reset_gene_read_cap(40000)
            w.random.reset_cap()
            try:
                evaluator.evaluate(problem, pool)
            except (Exception, SimStepCap):
                ctx.stat("foreign_failure:evaluation")
                return
            for i, ind in enumerate(pool):
                snaps[i] = individual_snapshot(ind, kind, w.ref, problems)
        n_ops = 2 + H.draw(10 if ctx.tier == "quick" else 40)
        history = []
        generation = 0
        for _ in range(n_ops):
            if len(pool) > 40:
                break
            op = H.weighted([("step", 6), ("mutate", 2), ("crossover", 2)])
            reset_gene_read_cap(40000)
            w.random.reset_cap()
            try:
                if op == "mutate":
                    a = pool[H.draw(len(pool))]
                    g = w.rep.mutate(w.random, a.genotype)
                    add(Individual(g, w.rep))
                    after = "mutate"
                elif op == "crossover":
                    a, b = pool[H.draw(len(pool))], pool[H.draw(len(pool))]
                    g1, g2 = w.rep.crossover(w.random, a.genotype, b.genotype)
                    add(Individual(g1, w.rep))
                    add(Individual(g2, w.rep))
                    after = "crossover"
                else:
                    desc = gen_step(H, max_depth=3, multi=multi)
                    step = build_step(desc)
                    size = 2 + H.draw(min(len(pool), 10) - 1)
                    # the population: a seeded sub-list of the pool (duplicates allowed: re-presented individuals)
                    members = [pool[H.draw(len(pool))] for _ in range(size)]
                    target = 1 + H.draw(size)
                    form = H.pick(["list", "population", "iterator"])
                    generation += 1
                    if form == "population":
                        tracker = (MultiObjectiveProgressTracker if multi else SingleObjectiveProgressTracker)(problem, evaluator)
                        popn = Population(iter(members), tracker, generation)
                    elif form == "iterator":
                        popn = (m for m in members)
                        ctx.faults["one_shot_input"] += 1
                    else:
                        popn = members
                    if len(set(map(id, members))) < len(members):
                        ctx.faults["represent"] += 1
                    after = "step:" + "+".join(step_kinds(desc)) + ":" + form
                    out = list(step.apply(problem, evaluator, w.rep, w.random, popn, target, generation))
                    for ind in out:
                        add(ind)
                    after = "step:" + "+".join(sorted(set(step_kinds(desc))))
                    ctx.stat("steps_applied")
                    ctx.nontrivial = True
                history.append(after)
            except SimStepCap:
                ctx.stat("step_cap")
                history.append(op + ":step-cap")
                after = op + ":failed"
            except w.lib_errors:
                ctx.stat("lib_error")
                history.append(op + ":lib-error")
                after = op + ":failed"
            except Exception as e:
                ctx.stat("foreign_failure:" + type(e).__name__)
                history.append(op + ":" + type(e).__name__)
                after = op + ":failed"
            ctx.log("op", history[-1])
            if not check(after):
                break
        ctx.sample = {**w.describe(), "multi_objective": multi, "history": history[:15], "pool": len(pool)}
    except SnapshotTooLarge:
        ctx.stat("unjudged:program-too-large-to-snapshot")
    finally:
        es.close()
        w.dispose()
