"""C10 -- the grammar is read-only during synthesis and search.

Simulated: F1 (SynthesisException from refinements: the harness' Flaky metahandler and the
library's own VarRange([]) reached through Dependent) -> the backtracking loop of create_node;
F2 (tiny gene lengths); failing creations (infeasible depth); whole searches.  Fault
enumeration: the same operation sequence is executed fault-free and then once per Flaky call
site with exactly that call failing (all of them in the thorough tier for sequences <= 6).
Oracle: a snapshot of the grammar taken right after extraction equals the snapshot after
every operation, successful or failed.
"""
from __future__ import annotations

from ..core import Chooser
from ..snap import grammar_snapshot, diff_keys
from ..spec import features, gen_spec
from ..world import SynthWorld

ID = "C10"
LEVEL = "fault_enumeration"
RULE = ("one run = one generated grammar rich in failing refinements (Flaky, Dependent -> VarRange([]) that makes a production "
        "infeasible in some contexts) x representation x decider x depth (including infeasible ones) x an operation sequence "
        "(create/map/mutate/crossover and short searches), executed fault-free, then once per refined-field generation with "
        "exactly that one raising SynthesisException, then under a seeded multi-fault plan; after every operation the grammar "
        "snapshot (productions in order, minimum depths, recursive set, terminal/non-terminal sets, weights, class-level weight "
        "attributes) is compared with the one taken after extraction; non-trivial = at least one injected or native "
        "SynthesisException was backtracked or one operation failed; distinct = distinct event-log digests")
STATES_MEASURE = "distinct (operation sequence, fault site) pairs executed"
COMPONENTS_REAL = ["geneticengine.representations.tree.initializations.create_node (backtracking loop)", "geneticengine.grammar.grammar.Grammar",
                   "geneticengine.grammar.metahandlers.{vars,dependent}", "geneticengine.representations.*", "geneticengine.algorithms.* (short searches)"]
COMPONENTS_STUB = ["RandomSource.randint/random_float (SimRandom)", "Flaky metahandler (harness, through the documented custom-metahandler API)"]
ASSUMPTIONS = ["the grammar's observable state is what the snapshot lists; abstract_dist_to_t (a defaultdict that grows on read) is not compared"]

FEAT = features(flaky=3, dependent=3, refined=6, annlist=3, list=1, union=1, tuple=1, weights=1, cls=6, multi_dependent=1, deep_chain=1, hollow=1, barren=1, nested_start=1, abstract_weights=1, falsy=1, future_annotations=1)


def budget(tier):
    if tier == "thorough":
        return {"runs": 60000, "run_timeout": 180, "max_wall": 1500}
    return {"runs": 4000, "run_timeout": 60, "max_wall": 200}


def gen_ops(H, n):
    ops = []
    for _ in range(n):
        k = H.weighted([("create", 4), ("map", 2), ("mutate", 3), ("crossover", 2), ("search", 1), ("other_grammar", 1), ("create_symbol", 1)])
        ops.append((k, H.draw(64), H.draw(64), H.draw(4)))
    return ops


def do_search(w, which, ctx):
    """a short real search on the world's representation (grammar must stay untouched)"""
    from geneticengine.algorithms.gp.gp import GeneticProgramming
    from geneticengine.algorithms.hill_climbing import HC
    from geneticengine.algorithms.one_plus_one import OnePlusOne
    from geneticengine.algorithms.random_search import RandomSearch
    from geneticengine.evaluation.budget import AnyOf, EvaluationBudget, SearchBudget
    from geneticengine.problems import SingleObjectiveProblem
    from ..world import OpResult

    class Checks(SearchBudget):
        """bounds the number of budget checks: constant random policies can starve GP of new individuals"""

        def __init__(self):
            self.n = 0

        def is_done(self, tracker):
            self.n += 1
            return self.n > 12

    res = OpResult("search")
    problem = SingleObjectiveProblem(lambda p: 1.0, minimize=False)
    algo = [RandomSearch, HC, OnePlusOne, GeneticProgramming][which]
    kw = {"population_size": 4} if algo is GeneticProgramming else {}

    def go():
        a = algo(problem=problem, budget=AnyOf(EvaluationBudget(8), Checks()), representation=w.rep, random=w.random, **kw)
        return a.search()

    w.install_flaky()
    w.guarded(res, go)
    ctx.log("op search", which, res.ok, res.error)
    return res


def do_create_symbol(w, pick, ctx):
    """a creation request for an arbitrary class of the supplied list (what a metahandler's rec(...), a typed mutation or
    random_node does) -- possibly one the grammar never registered because it is unreachable from the start symbol"""
    from geneticengine.representations.tree.initializations import MaxDepthDecider
    from geneticengine.representations.tree.treebased import random_node
    from ..seams import SimRandom
    from ..world import OpResult

    res = OpResult("create_symbol")
    classes = [w.built.cls[c["name"]] for c in w.spec["classes"]]
    target = classes[pick % len(classes)]

    def go():
        rnd0 = SimRandom(ctx, "uniform", log=False)
        return random_node(rnd0, w.grammar, target, MaxDepthDecider(rnd0, w.grammar, (w.max_depth or 3) + 2))

    w.install_flaky()
    try:
        w.guarded(res, go)
    except Exception:
        pass
    ctx.log("op create_symbol", w.built.name_of.get(target), res.ok, res.error)
    return res


def do_other_grammar(w, variant, ctx):
    """F13 (history): while this grammar is in use, ANOTHER grammar is built from the same classes (other depth-counting mode, a
    subset of the productions, or the reachable sub-grammar) and programs are created from it; the first grammar must not notice"""
    from geneticengine.grammar.grammar import extract_grammar
    from geneticengine.representations.tree.initializations import MaxDepthDecider
    from geneticengine.representations.tree.treebased import TreeBasedRepresentation
    from ..seams import SimRandom
    from ..world import OpResult

    res = OpResult("other_grammar")
    ctx.faults["carry_over"] += 1

    def go():
        considered = w.built.considered()
        start = w.built.cls[w.spec["start"]]
        if variant % 3 == 0:
            g2 = extract_grammar(considered, start, True)
        elif variant % 3 == 1:
            g2 = extract_grammar(considered[: max(1, len(considered) - 1 - variant % 2)], start)
        else:
            g2 = w.grammar.usable_grammar()
        rnd0 = SimRandom(ctx, "uniform", log=False)
        rep2 = TreeBasedRepresentation(g2, MaxDepthDecider(rnd0, g2, g2.get_min_tree_depth() + 1))
        rep2.create_genotype(rnd0)

    w.install_flaky()
    try:
        w.guarded(res, go)
    except Exception:
        pass
    ctx.log("op other_grammar", variant % 3, res.ok, res.error)
    return res


def execute(ctx, spec, config, ops, r_seed, fail_at, multi, base_depth_delta):
    w = SynthWorld(ctx, feat=FEAT, spec=spec, config=config, rchooser=Chooser("R2", r_seed))
    w.flaky_fail_at = fail_at
    if not multi:
        w.flaky_den = 0
    out = {"flaky_calls": 0, "failed_ops": 0, "sample": None}
    try:
        out["sample"] = w.describe()
        if not w.extract().ok:
            ctx.stat("foreign_failure:extract")
            return out
        snap0 = grammar_snapshot(w.grammar)
        r = w.construct(max_depth=(None if base_depth_delta is None else max(0, (w.lib_min_depth() or 1) + base_depth_delta)))

        def compare(after, weights_may_move=False):
            snap = grammar_snapshot(w.grammar)
            if weights_may_move:
                # extracting a grammar is the one operation the property allows to rewrite the (class-level) weights
                for key in ("weights", "class_weights"):
                    if key in snap:
                        snap0[key] = snap[key]
            if snap != snap0:
                keys = diff_keys(snap0, snap)
                ctx.violate(f"C10/grammar-changed/{'+'.join(keys)}",
                            f"after {after} on {w.rep_kind}/{w.decider_kind} the grammar differs from the one extracted: {keys}; "
                            f"before={[snap0[k] for k in keys][:2]} after={[snap[k] for k in keys][:2]}")
                return False
            return True

        if not compare("constructing the decider/representation"):
            return out
        if not r.ok:
            out["failed_ops"] += 1
            return out
        for (k, a, b, c) in ops:
            if k == "create" or not w.pool:
                res = w.op_create()
            elif k == "map":
                res = w.op_map(a % len(w.pool))
            elif k == "mutate":
                res = w.op_mutate(a % len(w.pool))
            elif k == "crossover":
                res = w.op_crossover(a % len(w.pool), b % len(w.pool))
            elif k == "other_grammar":
                res = do_other_grammar(w, a, ctx)
            elif k == "create_symbol":
                res = do_create_symbol(w, a, ctx)
            else:
                res = do_search(w, c, ctx)
            if not res.ok:
                out["failed_ops"] += 1
            if not compare(f"{res.kind} ({'ok' if res.ok else res.error})", weights_may_move=(res.kind == "other_grammar")):
                break
        out["flaky_calls"] = w.flaky_calls
        out["draws"] = getattr(w.random, "draws", 0)
        return out
    finally:
        w.dispose()


def run(ctx):
    H = ctx.H
    spec = gen_spec(H, FEAT)
    config = SynthWorld.draw_config(ctx, FEAT)
    config["flaky_den"] = H.pick([2, 3, 5])
    n_ops = 1 + H.draw(6 if ctx.tier == "quick" else 10)
    ops = gen_ops(H, n_ops)
    depth_delta = H.pick([None, None, None, 0, -1, 1])
    r_seed = ctx.R.draw(2**32)
    base = execute(ctx, spec, config, ops, r_seed, None, False, depth_delta)
    ctx.sample = {**(base["sample"] or {}), "ops": ops}
    n = base["flaky_calls"]
    ctx.stat("sequences")
    ctx.stat("fault_sites", n)
    if base["failed_ops"]:
        ctx.nontrivial = True
    if ctx.violations:
        return
    if ctx.tier == "thorough" and n_ops <= 6 and n <= 48:
        sites = list(range(n))  # every call site of a short sequence (a sequence with more sites than that is sampled)
    else:
        sites = sorted({H.draw(n) for _ in range(min(n, 6 if ctx.tier == "quick" else 16))}) if n else []
    work = 0
    for k in sites:
        out = execute(ctx, spec, config, ops, r_seed, k, False, depth_delta)
        ctx.stat("single_fault_executions")
        ctx.nontrivial = True
        if ctx.violations:
            return
        # a deterministic work budget (random draws answered by the simulator): sequences whose operations run into their
        # caps again and again are not re-executed for every remaining call site
        work += out.get("draws", 0)
        if work > 400_000:
            ctx.stat("fault_enumeration_cut_by_work_budget")
            break
    out = execute(ctx, spec, config, ops, r_seed, None, True, depth_delta)
    ctx.stat("multi_fault_executions")
    if out["failed_ops"] or ctx.faults.get("synthesis_exception"):
        ctx.nontrivial = True
