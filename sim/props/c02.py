"""C02 -- refinements (metahandlers) hold on every value the library produces.

Simulated: N1 with boundary draws (F3: the source answers lo / hi, which makes min==max
ranges, IntervalRange's boundary lengths and choice_weighted's last bucket certain instead
of 1-in-10^5), F1 (SynthesisException), op sequences.  Oracles: (i) reference predicates on
every refined position of every produced program, dependent ones evaluated on the actual
siblings; (ii) generator/validator agreement: validate(v) is True for every value found at a
refined position and for values generated directly under lo/hi/edge policies.
"""
from __future__ import annotations

import typing

from ..seams import SimRandom
from ..spec import features
from ..world import SynthWorld, make_world, render_value, short_tb

ID = "C02"
LEVEL = "exploration"
RULE = ("one run = one refinement-rich generated grammar (integer/float ranges and lists, name sets, bounded list sizes, "
        "bounded strings over small alphabets, fixed-length weighted strings, interval ranges, dependent refinements; at top "
        "level, inside lists, inside unions, under Dependent) x representation x decider x random policy x a seeded "
        "create/map/mutate/crossover sequence, followed by direct generate() calls on every refinement of the grammar under "
        "lo / hi / edge policies; non-trivial = at least one refined position was checked; distinct = distinct event-log digests")
COMPONENTS_REAL = ["geneticengine.grammar.metahandlers.*", "geneticengine.representations.*", "geneticengine.random.sources (derived primitives)"]
COMPONENTS_STUB = ["RandomSource.randint/random_float (SimRandom, stream R)", "set iteration order (OrderedSimSet)"]
ASSUMPTIONS = ["predicates transcribed from the metahandler docstrings; IntervalRange(lo,hi,top): lo <= v[1]-v[0] <= hi and v[1] <= top, closed",
               "a Dependent refinement's predicate is that of the refinement its function returns for the actual sibling values"]

FEAT = features(refined=8, annlist=4, list=1, union=2, tuple=1, dependent=2, flaky=1, interval=2, cls=4, int=1, float=1, str=1, bool=1, concrete_start=1, multi_dependent=1, nested_list=1, falsy=1, future_annotations=1, shared_handlers=1)


def budget(tier):
    if tier == "thorough":
        return {"runs": 150000, "run_timeout": 120, "max_wall": 1500}
    return {"runs": 9000, "run_timeout": 60, "max_wall": 200}


def unwrap_mh(mh, siblings):
    """the effective metahandler at a position: peel Flaky and Dependent"""
    from geneticengine.grammar.metahandlers.dependent import Dependent
    from ..flaky import Flaky

    for _ in range(4):
        if isinstance(mh, Flaky):
            mh = mh.inner
        elif isinstance(mh, Dependent):
            try:
                mh = mh.callable(*[siblings[n] for n in mh.get_dependencies()])
            except Exception:
                return None
        else:
            break
    return mh


def check_validators(ctx, w, v, t, hint, siblings, path):
    """walk value/spec-type/real-type-hint in parallel; at each Annotated position call the
    real validate()"""
    k = t[0]
    if k == "ann":
        mh = unwrap_mh(hint.__metadata__[0], siblings)
        if mh is not None:
            ctx.stat("validate_calls")
            try:
                ok = mh.validate(v)
            except NotImplementedError:
                ok = None
            except Exception as e:
                ctx.violate(f"C02/validate-raises/{type(mh).__name__}/{type(e).__name__}", f"validate({v!r}) raised {short_tb(e)}")
                ok = None
            known = False
            if ok is False and w.rep_kind == "stack":
                try:
                    # the known finding: the stack machine pops an alias-built value exactly when the annotation object is a stack key
                    known = hint in set(w.grammar.get_all_mentioned_symbols())
                except Exception:
                    known = True
            if ok is False and known:
                ctx.violate("C02/refinement/stack/annotated-symbol-built-without-its-refinement",
                            f"{type(mh).__name__}.validate({v!r}) is False for a value found at {path} of a stack-mapped program")
            elif ok is False:
                ctx.violate(f"C02/validate-rejects-generated/{type(mh).__name__}",
                            f"{type(mh).__name__}.validate({v!r}) is False for a value found at {path} (params {vars(mh) if len(str(vars(mh))) < 200 else ''})")
        check_validators(ctx, w, v, t[1], typing.get_args(hint)[0], siblings, path)
    elif k == "cls":
        n = w.ref.cls_of(v)
        if n is None:
            return
        from geneticengine.grammar.utils import get_arguments

        hints = dict(get_arguments(type(v)))
        sib = {}
        for fn, ft in w.ref.cls[n]["fields"]:
            if w.ref.has_field(v, n, fn) and fn in hints:
                check_validators(ctx, w, w.ref.field(v, n, fn), ft, hints[fn], sib, f"{path}.{fn}")
                sib[fn] = w.ref.field(v, n, fn)
    elif k == "list" and isinstance(v, list):
        inner = typing.get_args(hint)[0]
        for i, e in enumerate(v):
            check_validators(ctx, w, e, t[1], inner, siblings, f"{path}[{i}]")
    elif k == "tuple" and type(v) is tuple:
        for i, (e, et, eh) in enumerate(zip(v, t[1], typing.get_args(hint))):
            check_validators(ctx, w, e, et, eh, siblings, f"{path}({i})")
    elif k == "union":
        for alt, ah in zip(t[1], typing.get_args(hint)):
            if w.ref.conforms(v, alt) is None and not w.ref.check_refinements(v, alt, path, siblings):
                check_validators(ctx, w, v, alt, ah, siblings, path)
                return


def stack_pops_alias_built_value(w, p, path):
    """Is this refinement violation of a stack-mapped program the KNOWN one?  The stack machine ignores a field's refinement exactly
    when the field's annotation object is itself a key of its stacks (`argt in stacks`: real annotation objects, re-declared
    fields, refinements that compare equal across resolutions); where the annotation is a string resolved anew (an unequal
    object) it selects the value with validate(), and a violation is judged like anywhere else."""
    import re
    from geneticengine.grammar.utils import get_arguments

    try:
        node, field = None, None
        cur = p
        for name, li, ti in re.findall(r"\.(\w+)|\[(\d+)\]|\((\d+)\)", path):
            if name:
                node, field = cur, name
                n = w.ref.cls_of(cur)
                cur = w.ref.field(cur, n, name)
            else:
                cur = cur[int(li or ti)]
                node, field = None, None  # the violating value is an element below the field: not decidable here
        if node is None:
            # an ELEMENT of a list / tuple: the stack machine builds a list from the stack of the element symbol it reads off the
            # grammar's own list symbol, and that stack holds the alias-built values whatever form the module's annotations have
            return True
        hint = dict(get_arguments(type(node)))[field]
        return hint in set(w.grammar.get_all_mentioned_symbols())
    except Exception:
        return True


def check_program(ctx, w, p, how):
    if w.ref.conforms(p, w.start_type()) is not None:
        ctx.stat("foreign_failure:ill-typed")  # C01's business
        return
    bad = w.ref.check_refinements(p, w.start_type())
    ctx.stat("programs_checked")
    for cause, path in bad[:3]:
        known = w.rep_kind == "stack" and stack_pops_alias_built_value(w, p, path)
        ctx.violate(f"C02/refinement/{w.rep_kind}/{'annotated-symbol-built-without-its-refinement' if known else cause}",
                    f"{how} on {w.rep_kind} produced a value violating its refinement: {cause} at {path}; program={render_value(p, w.ref)}")
    if not bad:
        check_validators(ctx, w, p, w.start_type(), w.built.start(), {}, "$")


def collect_refinements(t, out):
    k = t[0]
    if k == "ann":
        out.append(t)
        collect_refinements(t[1], out)
    elif k == "list":
        collect_refinements(t[1], out)
    elif k in ("tuple", "union"):
        for x in t[1]:
            collect_refinements(x, out)


def direct_generation(ctx, w):
    """generate() on every refinement of the grammar under lo / hi / edge policies"""
    from geneticengine.grammar.utils import get_arguments
    from geneticengine.grammar.metahandlers.base import SynthesisException

    for c in w.spec["classes"]:
        if c["kind"] not in ("data", "plain") or not c["fields"]:
            continue
        hints = dict(get_arguments(w.built.cls[c["name"]]))
        for fn, ft in c["fields"]:
            if ft[0] != "ann" or ft[2][0].startswith("Dependent") or ft[2][0] == "Opaque":
                continue  # opaque: a refinement of the shipped corpus the reference does not model (may not even be an instance)
            hint = hints[fn]
            mh = hint.__metadata__[0]
            base = typing.get_args(hint)[0]
            for policy in ("lo", "hi", "edge"):
                rnd = SimRandom(ctx, policy, name="direct", edge_den=2)

                def rec(typ, **kw):
                    if hasattr(typ, "__metadata__"):
                        return typ.__metadata__[0].generate(rnd, w.grammar, typing.get_args(typ)[0], rec, {})
                    return 0

                w.install_flaky()
                try:
                    v = mh.generate(rnd, w.grammar, base, rec, {})
                except SynthesisException:
                    continue
                except Exception as e:
                    ctx.violate(f"C02/generate-raises/{type(unwrap_mh(mh, {})).__name__}/{type(e).__name__}",
                                f"generate under policy {policy} raised {short_tb(e)}")
                    continue
                ctx.stat("direct_generate")
                cause = w.ref.refinement_holds(v, ft[2], {})
                if cause:
                    ctx.violate(f"C02/generate-outside-refinement/{cause}", f"{c['name']}.{fn}: generate under policy {policy} returned {v!r}, outside {ft[2]}")
                    continue
                eff = unwrap_mh(mh, {})
                try:
                    ok = eff.validate(v)
                except Exception as e:
                    ctx.violate(f"C02/validate-raises/{type(eff).__name__}/{type(e).__name__}", f"validate({v!r}) raised {short_tb(e)}")
                    continue
                if ok is False:
                    ctx.violate(f"C02/validate-rejects-generated/{type(eff).__name__}",
                                f"{c['name']}.{fn}: {type(eff).__name__}.validate({v!r}) is False for a value its own generate() returned under policy {policy}; refinement {ft[2]}")


def directed(tier):
    """the shipped grammars and the test-suite hierarchies (real classes) under seeded configurations"""
    from ..world import corpus_directed

    return corpus_directed(tier, per_spec_quick=3, per_spec_thorough=12)


def run(ctx):
    H = ctx.H
    w = make_world(ctx, FEAT)
    try:
        ctx.sample = w.describe()
        if not w.extract().ok:
            ctx.stat("foreign_failure:extract")
            return
        r = w.construct()
        ctx.sample = w.describe()
        if r.ok:
            n_ops = 1 + H.draw(10 if ctx.tier == "quick" else 30)
            redeclare_at = H.draw(n_ops) if H.draw(4) == 3 else -1
            for step_i in range(n_ops):
                if step_i == redeclare_at:
                    w.op_redeclare()
                    ctx.sample = w.describe()
                res = w.random_op()
                if res.foreign:
                    ctx.stat("foreign_failure:exception")
                    continue
                if res.kind == "map" and res.ok:
                    check_program(ctx, w, res.phenotype, "map")
                    ctx.nontrivial = True
                for idx in res.new:
                    if w.rep_kind == "tree":
                        check_program(ctx, w, w.pool[idx], res.kind)
                        ctx.nontrivial = True
                    else:
                        m = w.op_map(idx)
                        if m.ok:
                            check_program(ctx, w, m.phenotype, f"{res.kind}+map")
                            ctx.nontrivial = True
            if w.rep_kind == "stack" and not ctx.violations:
                # most stack genotypes fail to map at all ("genome not enough"): many cheap attempts, so that stack-mapped programs
                # with several refined fields are actually seen
                for _ in range(40):
                    res = w.op_create()
                    for idx in res.new:
                        m = w.op_map(idx)
                        if m.ok:
                            ctx.stat("stack_programs_from_the_extra_attempts")
                            check_program(ctx, w, m.phenotype, "create+map")
                    if ctx.violations:
                        break
        direct_generation(ctx, w)
    finally:
        w.dispose()
