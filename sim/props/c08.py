"""C08 -- same seed, same search: results are reproducible within and across processes.

Simulated: N2 (two different legal set-order schedules for the same seed must give the same
trace -- exactly replayable in process), N7/F13 (run A then run B in the same process on the
same grammar object, also with a re-extraction in between), N3 (SimClock, so that searches
built with AnyOf(TimeBudget, ...) are comparable), and N2' (fresh interpreters under
`setarch -R` with distinct PYTHONHASHSEED and allocation noise, OrderedSimSet off).
Trace = canonical form of every program passed to the fitness function, in order, plus the
returned best and its fitness.
"""
from __future__ import annotations

import hashlib
import json
import os
import subprocess
import sys

from ..core import Chooser, SimStepCap
from ..ref import Ref, canon, show
from ..seams import (SimClock, install_gene_read_cap, install_set_order, installed_clock, reset_gene_read_cap, set_order_seed)
from .. import seams
from ..spec import Built, features, gen_spec

ID = "C08"
LEVEL = "exploration"
RULE = ("one run = one search configuration (GP / random search / hill climbing / (1+1) x tree, GE, SGE, dynamic SGE, stack x grow / "
        "full / pi-grow / progressive decider x generated grammar x NativeRandomSource(seed) x evaluation budget <= 60) executed "
        "(a) twice in a row in the same process on the same grammar object, (b) again after a re-extraction, (c) under a second, "
        "different iteration order of the grammar's symbol sets, and, for every 25th run, (d) in fresh interpreters with different "
        "PYTHONHASHSEED / allocation noise (ASLR off); all traces must be equal; non-trivial = the trace has >= 3 evaluated "
        "programs of which >= 2 differ; distinct = distinct (configuration, schedule/environment) pairs")
STATES_MEASURE = "distinct (configuration, schedule or environment) pairs"
COMPONENTS_REAL = ["geneticengine.random.sources.NativeRandomSource", "geneticengine.algorithms.*", "geneticengine.representations.*", "geneticengine.grammar.grammar",
                   "geneticengine.evaluation.*"]
COMPONENTS_STUB = ["set iteration order (OrderedSimSet) in process; real in the fresh-interpreter stratum", "time.monotonic_ns (SimClock)", "fitness (structural hash of the program)"]
ASSUMPTIONS = ["wall-clock budgets are excepted by the property; TimeBudget only appears under the simulated clock with a limit that never fires"]

FEAT = features(list=2, annlist=2, union=1, tuple=1, nested=1, standalone=1, cls=8, refined=3, weights=1, dependent=2, future_annotations=1, concrete_start=1)


def budget(tier):
    if tier == "thorough":
        return {"runs": 40000, "run_timeout": 240, "max_wall": 1500}
    return {"runs": 2400, "run_timeout": 120, "max_wall": 200}


def gen_config(H):
    return {
        "algo": H.pick(["gp", "rs", "hc", "opo"]),
        "rep": H.pick(["tree", "ge", "sge", "dsge", "stack"]),
        "decider": H.pick(["grow", "full", "pigrow", "progressive"]),
        "delta": H.pick([0, 1, 2, 3]),
        "gene_length": H.pick([8, 32, 128]),
        "seed": H.draw(10**6),
        "evals": 4 + H.draw(40),
        "pop": 2 + H.draw(9),
        "hc_n": 1 + H.draw(4),
        "minimize": bool(H.draw(2)),
        "time_budget": bool(H.draw(4) == 3),
        "composite_budget": bool(H.draw(2)),
        "inject": bool(H.draw(2)),
        "default_random": bool(H.draw(4) == 3),  # the search is built without `random=` (documented default)
        "fitness_levels": H.pick([1000, 1000, 7, 3]),  # coarse fitness: ties at the elite cut
        "elitist_step": bool(H.draw(2)),  # GP step that really reserves elite slots (the default 5% rounds to 0 for small populations)
    }


def run_search(spec, cfg, built=None, grammar=None, clock=None, shared=None):
    """one search; returns (trace list, built, grammar)"""
    from geneticengine.algorithms.gp.gp import GeneticProgramming
    from geneticengine.algorithms.hill_climbing import HC
    from geneticengine.algorithms.one_plus_one import OnePlusOne
    from geneticengine.algorithms.random_search import RandomSearch
    from geneticengine.evaluation.budget import AnyOf, EvaluationBudget, SearchBudget, TimeBudget
    from geneticengine.problems import SingleObjectiveProblem
    from geneticengine.random.sources import NativeRandomSource
    from geneticengine.representations.grammatical_evolution.dynamic_structured_ge import DynamicStructuredGrammaticalEvolutionRepresentation
    from geneticengine.representations.grammatical_evolution.ge import GrammaticalEvolutionRepresentation
    from geneticengine.representations.grammatical_evolution.structured_ge import StructuredGrammaticalEvolutionRepresentation
    from geneticengine.representations.stackgggp import StackBasedGGGPRepresentation
    from geneticengine.representations.tree import initializations as I
    from geneticengine.representations.tree.treebased import TreeBasedRepresentation

    b = built or Built(spec)
    ref = Ref(spec, b)
    g = grammar or b.extract()
    trace = []
    # (a problem object may serve two searches -- history, `shared` -- so its fitness function writes to the CURRENT run's trace)
    box = shared.setdefault("trace_box", [None]) if shared is not None else [None]
    box[0] = trace
    levels = cfg.get("fitness_levels", 1000)

    def ff(p):
        c = canon(p, ref)
        h = int.from_bytes(hashlib.sha256(repr(c).encode()).digest()[:4], "big")
        box[0].append(show(c, 160))
        return float(h % levels)

    r = NativeRandomSource(cfg["seed"])
    lm = g.get_min_tree_depth()
    depth = (lm if lm < 10**6 else 3) + cfg["delta"]
    mk = {"grow": lambda: I.MaxDepthDecider(r, g, depth), "full": lambda: I.FullDecider(r, g, depth),
          "pigrow": lambda: I.PositionIndependentGrowDecider(r, g, depth), "progressive": lambda: I.ProgressivelyTerminalDecider(r, g)}
    k = cfg["rep"]
    # the genotype-based representations hold no run state (their deciders read from the genotype at mapping time): a caller may
    # hand the SAME representation object to a second search (history, `shared`)
    rep = shared.get("rep") if (shared is not None and k != "tree" and grammar is not None) else None
    if rep is not None:
        pass
    elif k == "tree":
        rep = TreeBasedRepresentation(g, mk[cfg["decider"]]())
    elif k == "ge":
        rep = GrammaticalEvolutionRepresentation(g, mk[cfg["decider"]](), gene_length=cfg["gene_length"])
    elif k == "sge":
        rep = StructuredGrammaticalEvolutionRepresentation(g, mk[cfg["decider"]](), gene_length=cfg["gene_length"])
    elif k == "dsge":
        rep = DynamicStructuredGrammaticalEvolutionRepresentation(g, depth)
    else:
        rep = StackBasedGGGPRepresentation(g, gene_length=max(64, cfg["gene_length"]), failures_limit=50)
    if shared is not None and k != "tree":
        shared["rep"] = rep
    problem = shared.get("problem") if (shared is not None and grammar is not None) else None
    if problem is None:
        problem = SingleObjectiveProblem(ff, minimize=cfg["minimize"])
        if shared is not None:
            shared["problem"] = problem

    class Checks(SearchBudget):
        def __init__(self):
            self.n = 0

        def is_done(self, tracker):
            self.n += 1
            return self.n > 6 * cfg["evals"] + 20

    # the library's budget objects hold no run state (they read the tracker): a caller may hand the SAME budget object to a
    # second search (history, `shared`); the harness' own bound on budget checks is always fresh
    lib_bud = shared.get("budget") if shared is not None else None
    if lib_bud is None:
        lib_bud = EvaluationBudget(cfg["evals"])
        if cfg.get("composite_budget"):
            lib_bud = AnyOf(lib_bud, EvaluationBudget(cfg["evals"] + 3))
        if cfg["time_budget"]:
            lib_bud = AnyOf(TimeBudget(10**6), lib_bud)
        if shared is not None:
            shared["budget"] = lib_bud
    bud = AnyOf(lib_bud, Checks())
    cls = {"gp": GeneticProgramming, "rs": RandomSearch, "hc": HC, "opo": OnePlusOne}[cfg["algo"]]
    kw = {}
    if cfg["algo"] == "gp":
        kw["population_size"] = cfg["pop"]
        if cfg.get("elitist_step"):
            from geneticengine.algorithms.gp.operators.combinators import ParallelStep, SequenceStep
            from geneticengine.algorithms.gp.operators.crossover import GenericCrossoverStep
            from geneticengine.algorithms.gp.operators.elitism import ElitismStep
            from geneticengine.algorithms.gp.operators.mutation import GenericMutationStep
            from geneticengine.algorithms.gp.operators.novelty import NoveltyStep
            from geneticengine.algorithms.gp.operators.selection import TournamentSelection

            kw["step"] = ParallelStep([ElitismStep(), NoveltyStep(),
                                       SequenceStep(TournamentSelection(3), GenericCrossoverStep(0.5), GenericMutationStep(0.5))], weights=[3, 1, 6])
    if cfg["algo"] == "hc":
        kw["number_of_mutations"] = cfg["hc_n"]
    if cfg.get("inject") and k == "tree" and cfg["algo"] == "gp":
        # the caller's own list of hand-made programs is injected into the initial population; the same list object serves the
        # second search (history, `shared`)
        from geneticengine.algorithms.gp.operators.initializers import StandardInitializer
        from geneticengine.representations.tree.operators import InjectInitialPopulationWrapper

        programs = shared.get("programs") if (shared is not None and grammar is not None) else None
        if programs is None:
            try:
                r2 = NativeRandomSource(cfg["seed"] + 7)
                rep2 = TreeBasedRepresentation(g, I.MaxDepthDecider(r2, g, depth))
                programs = [rep2.create_genotype(r2) for _ in range(1 + cfg["pop"] // 2)]
            except Exception:
                programs = []
            if shared is not None:
                shared["programs"] = programs
        if programs:
            kw["population_initializer"] = InjectInitialPopulationWrapper(programs, StandardInitializer())
    outcome = "ok"
    best = None
    try:
        if cfg.get("default_random"):
            a = cls(problem=problem, budget=bud, representation=rep, **kw)
        else:
            a = cls(problem=problem, budget=bud, representation=rep, random=r, **kw)
        best = a.search()
    except SimStepCap:
        outcome = "step-cap"
    except RecursionError:
        outcome = "RecursionError"
    except Exception as e:
        outcome = type(e).__name__
    if best is not None:
        try:
            trace.append("BEST " + show(canon(best.get_phenotype(), ref), 160) + " " + repr(best.get_fitness(problem).fitness_components))
        except Exception as e:
            trace.append("BEST ? " + type(e).__name__)
    trace.append("OUTCOME " + outcome)
    return trace, b, g


def worker_trace(req):
    """fresh interpreter: real set order (OrderedSimSet not installed)"""
    install_gene_read_cap()
    reset_gene_read_cap(200000)
    trace, b, g = run_search(req["spec"], req["cfg"])
    return trace


def first_diff(a, b):
    for i, (x, y) in enumerate(zip(a, b)):
        if x != y:
            return i, x, y
    return min(len(a), len(b)), (a[len(b)] if len(a) > len(b) else None), (b[len(a)] if len(b) > len(a) else None)


def run(ctx):
    H = ctx.H
    install_set_order()
    install_gene_read_cap()
    spec = gen_spec(H, FEAT)
    cfg = gen_config(H)
    s1 = ctx.S.draw(2**16)
    s2 = (ctx.S.draw(2**16 - 1) + 1 + s1) % 2**16 or 1
    clock = SimClock(ctx)
    ctx.sample = {"config": cfg, "order_seeds": [s1, s2]}
    sig_cfg = f"{cfg['rep']}/{cfg['algo']}"

    H.draw(2)
    shared = {}  # run A and run B receive the same library budget object and (genotype-based kinds) the same representation object

    def go(order, built=None, grammar=None, shared=None):
        set_order_seed(order)
        reset_gene_read_cap(200000)
        with installed_clock(clock):
            return run_search(spec, cfg, built, grammar, clock, shared)

    built = []
    try:
        tA, b, g = go(s1, shared=shared)
        built.append(b)
        ctx.sample["grammar_source"] = b.source.split("from sim.flaky import Flaky\n", 1)[-1].strip()
        ctx.sample["trace_head"] = tA[:4]
        progs = [t for t in tA if not t.startswith(("BEST", "OUTCOME"))]
        if len(progs) >= 3 and len(set(progs)) >= 2:
            ctx.nontrivial = True
        ctx.stat("outcome:" + tA[-1].split()[-1])
        # (a) run B in the same process on the same grammar object
        tB, _, _ = go(s1, b, g, shared=shared)
        ctx.faults["carry_over"] += 1
        if tB != tA:
            i, x, y = first_diff(tA, tB)
            ctx.violate(f"C08/second-run-differs/{sig_cfg}", f"the same configuration run twice in a row on the same grammar diverges at trace entry {i}: {x!r} vs {y!r}")
            return
        # (b) after a re-extraction (class-level state rewritten)
        tC, _, _ = go(s1, b, None)
        if tC != tA:
            i, x, y = first_diff(tA, tC)
            ctx.violate(f"C08/run-after-re-extraction-differs/{sig_cfg}", f"after extracting the grammar again the same seed diverges at trace entry {i}: {x!r} vs {y!r}")
            return
        # (c) a different legal iteration order of the grammar's symbol sets (fresh classes: another 'process')
        tD, b2, _ = go(s2)
        built.append(b2)
        ctx.faults["set_order"] += 1
        if tD != tA:
            i, x, y = first_diff(tA, tD)
            ctx.violate(f"C08/schedule-dependent/{sig_cfg}",
                        f"the same seed under two iteration orders of the grammar's symbol sets ({s1}, {s2}) diverges at trace entry {i}: {x!r} vs {y!r}")
            return
        # (e) history: the same classes went through an extraction and a search under OTHER field annotations before being
        # re-declared (the documented `Cls.__init__.__annotations__[f] = ...` idiom); the search after the re-declaration must
        # equal the search on freshly built classes that carry the new annotations from the start
        if ctx.run_index % 3 == 0:
            import copy
            from ..spec import gen_refinement, render_type

            cands = [(c, i) for c in spec["classes"] if c["kind"] in ("data", "plain") and not c.get("inherit") for i, (fn, ft) in enumerate(c["fields"])
                     if fn.startswith("f") and (ft[1] if ft[0] == "ann" else ft)[0] in ("int", "float", "str", "bool") and not (ft[0] == "ann" and ft[2][0].startswith("Dependent"))]
            if cands:
                c, i = cands[H.draw(len(cands))]
                kindn = H.pick(["int", "bool", "ann-int", "ann-str", "ann-float"])
                new = [kindn] if not kindn.startswith("ann-") else ["ann", [kindn[4:]], gen_refinement(H, kindn[4:], FEAT)]
                if new != c["fields"][i][1]:
                    spec2 = copy.deepcopy(spec)
                    for c2 in spec2["classes"]:
                        if c2["name"] == c["name"]:
                            c2["fields"][i] = [c["fields"][i][0], new]
                    set_order_seed(s1)
                    reset_gene_read_cap(200000)

                    def redeclare(b_):
                        cls = b_.cls[c["name"]]
                        tobj = eval(render_type(new, []), b_.module.__dict__)
                        cls.__init__.__annotations__[c["fields"][i][0]] = tobj
                        if c["fields"][i][0] in getattr(cls, "__annotations__", {}):
                            cls.__annotations__[c["fields"][i][0]] = tobj

                    # reference: fresh classes re-declared the same way BEFORE anything was extracted from them (so that only the
                    # history differs, not the form -- object or string -- in which the annotation is held)
                    bY = Built(spec)
                    built.append(bY)
                    redeclare(bY)
                    with installed_clock(clock):
                        tY, _, _ = run_search(spec2, cfg, bY, None, clock)
                    bX = Built(spec)  # old annotations first: extraction + a search, then re-declare and search again
                    built.append(bX)
                    with installed_clock(clock):
                        run_search(spec, cfg, bX, None, clock)
                        redeclare(bX)
                        reset_gene_read_cap(200000)
                        tX, _, _ = run_search(spec2, cfg, bX, None, clock)
                    ctx.faults["carry_over"] += 1
                    ctx.stat("redeclaration_histories")
                    if tX != tY:
                        i_, x, y = first_diff(tX, tY)
                        ctx.violate(f"C08/history-dependent/after-redeclaration/{sig_cfg}",
                                    f"a search on classes whose field {c['name']}.{c['fields'][i][0]} was re-declared after an earlier extraction and search differs from "
                                    f"the same seeded search on fresh classes re-declared the same way before any extraction, at trace entry {i_}: {x!r} vs {y!r}")
                        return
        # (f) history: an extraction that the library rejects (a negative weight was declared) precedes the corrected declaration
        weighted = [c for c in spec["classes"] if c.get("weight") is not None and c["kind"] in ("data", "plain")]
        if weighted and ctx.run_index % 4 == 1:
            from geneticengine.grammar.decorators import weight as declare_weight

            v = weighted[H.draw(len(weighted))]
            bZ = Built(spec)
            built.append(bZ)
            declare_weight(-2.0)(bZ.cls[v["name"]])
            try:
                bZ.extract()
                ctx.stat("history:negative-weight-accepted")
            except Exception:
                ctx.stat("history:rejected-extraction")
            declare_weight(v["weight"])(bZ.cls[v["name"]])
            set_order_seed(s1)
            reset_gene_read_cap(200000)
            with installed_clock(clock):
                tZ, _, _ = run_search(spec, cfg, bZ, None, clock)
            ctx.faults["carry_over"] += 1
            if tZ != tA:
                i_, x, y = first_diff(tZ, tA)
                ctx.violate(f"C08/history-dependent/after-rejected-extraction/{sig_cfg}",
                            f"a search on classes that went through an extraction under a negative declared weight on {v['name']} (rejected, or normalised away), then corrected, differs from the "
                            f"same seeded search on fresh classes, at trace entry {i_}: {x!r} vs {y!r}")
                return
        # (d) fresh interpreters
        if ctx.run_index % 25 == 3 or (cfg["algo"] == "gp" and cfg["rep"] != "tree" and ctx.run_index % 5 == 1):
            envs = fresh_traces(spec, cfg, 3 if ctx.tier == "quick" else 6)
            ctx.stat("fresh_interpreter_runs", len(envs))
            good = [(e, t) for e, t in envs if t is not None]
            for (e1, t1), (e2, t2) in zip(good, good[1:]):
                if t1 != t2:
                    i, x, y = first_diff(t1, t2)
                    ctx.violate(f"C08/process-dependent/{sig_cfg}", f"two fresh interpreters ({e1}; {e2}) diverge at trace entry {i}: {x!r} vs {y!r}")
                    return
    finally:
        for b in built:
            b.dispose()
        ctx.shape = json.dumps(cfg, sort_keys=True) + f"|{s1}|{s2}"


def fresh_traces(spec, cfg, n):
    here = os.path.dirname(os.path.dirname(os.path.abspath(__file__)))
    out = []
    for i in range(n):
        env = dict(os.environ)
        env["PYTHONHASHSEED"] = str(1 + 104729 * i)
        env["SIM_ALLOC_NOISE"] = str(i * 53)
        cmd = [sys.executable, "-B", os.path.join(here, "envworker.py"), "trace"]
        if os.path.exists("/usr/bin/setarch"):
            cmd = ["setarch", os.uname().machine, "-R"] + cmd
        try:
            p = subprocess.run(cmd, input=json.dumps({"spec": spec, "cfg": cfg}), capture_output=True, text=True, env=env, timeout=120)
            res = json.loads(p.stdout) if p.returncode == 0 else None
        except Exception:
            res = None
        out.append((f"PYTHONHASHSEED={env['PYTHONHASHSEED']} noise={env['SIM_ALLOC_NOISE']}", res))
    return out
