"""C11 -- per-node size and depth metadata matches the actual program structure.

Simulated: N1, op sequences with mutation and crossover (reused subtrees, the gengy_labeled
memoisation short-circuit), N7.  Oracle: for EVERY node and list of every produced program
the four labels equal an independent traversal (DESIGN A.3); the types index is compared as a
multiset of node identities.
"""
from __future__ import annotations

from collections import Counter

from ..spec import features
from ..world import SynthWorld, make_world, render_value

ID = "C11"
LEVEL = "exploration"
RULE = ("one run = one list-rich generated grammar x representation (tree, and phenotypes mapped by GE/SGE/dSGE/stack) x decider "
        "x random policy x a create/map/mutate/crossover sequence; every node and every list of every produced program is "
        "compared with the reference traversal (node count, distance to the deepest terminal, weighted size, types index); "
        "non-trivial = a program with at least two grammar nodes was checked; distinct = distinct event-log digests")
COMPONENTS_REAL = ["geneticengine.representations.tree.utils.relabel_nodes", "geneticengine.grammar.utils.get_arguments",
                   "geneticengine.representations.tree.initializations.wrap_result", "geneticengine.representations.tree.treebased (mutate/crossover)"]
COMPONENTS_STUB = ["RandomSource.randint/random_float (SimRandom)", "set iteration order (OrderedSimSet)"]
ASSUMPTIONS = ["conventions of the library's documentation and relabel_test: a field-less node and a base value have distance 0, node count 0 and weighted size 0; "
               "lists are transparent (elements are children of the enclosing node); node: count 1+sum, distance max(1, children+1), weighted = sum + distance",
               "tuples are transparent containers like lists (they cannot carry labels themselves; the nodes inside them must)"]

FEAT = features(list=4, annlist=4, union=1, tuple=1, interval=0, cls=8, refined=2, nested=1, standalone=1, dependent=1, base_in_list=1, concrete_start=1, nested_list=1, self_ref=1, flaky=1, deep_chain=1, falsy=1, future_annotations=1, inherited_ctor=1)


def budget(tier):
    if tier == "thorough":
        return {"runs": 150000, "run_timeout": 120, "max_wall": 1500}
    return {"runs": 9000, "run_timeout": 60, "max_wall": 200}


class RefMeta:
    def __init__(self, ref):
        self.ref = ref
        self.memo = {}

    def terminal(self, x):
        if isinstance(x, (list, tuple)):
            return False  # containers are transparent: their elements are children of the enclosing node
        n = self.ref.cls_of(x)
        return n is None or not self.ref.cls[n]["fields"]

    def children(self, x):
        if isinstance(x, (list, tuple)):
            return list(x)
        n = self.ref.cls_of(x)
        return [self.ref.field(x, n, fn) for fn, _ in self.ref.cls[n]["fields"]]

    def meta(self, x):
        """(nodes, dist, weighted, index Counter of (typename, id-or-value))"""
        k = id(x)
        if k in self.memo and self.memo[k][0] is x:
            return self.memo[k][1]
        if self.terminal(x):
            r = (0, 0, 0, Counter([self.key(x)]))
        else:
            kids = [self.meta(c) for c in self.children(x)]
            idx = Counter([self.key(x)])
            for _, _, _, ki in kids:
                idx.update(ki)
            cont = (list, tuple)
            if isinstance(x, cont):
                nodes = sum(k[0] for k in kids)
                dist = max([k[1] + (0 if isinstance(c, cont) and not self.terminal(c) else 1) for k, c in zip(kids, self.children(x))] or [0])
                weighted = sum(k[2] for k in kids)
            else:
                nodes = 1 + sum(k[0] for k in kids)
                dist = max([1] + [k[1] + (0 if isinstance(c, cont) and not self.terminal(c) else 1) for k, c in zip(kids, self.children(x))])
                weighted = sum(k[2] for k in kids) + dist
            r = (nodes, dist, weighted, idx)
        self.memo[k] = (x, r)
        return r

    def key(self, x):
        t = type(x)
        if t in (int, float, str, bool):
            return (t.__name__, "v", repr(x))
        return (t.__name__, "id", id(x))


class RefMetaExpansion(RefMeta):
    """grammar-expansion counting (docs/grammars.md: the count grows at every expanded production rule), for hierarchies without
    lists, tuples and unions: a base value and a field-less production count 1; below a node, every child adds the number of
    abstract layers between its field's declared type and its own class"""

    def layers(self, declared, n):
        k = 0
        cur = n
        while cur is not None and cur != declared:
            cur = self.ref.cls[cur]["parent"]
            k += 1
        return k if cur == declared else 0

    def meta(self, x):
        k = id(x)
        if k in self.memo and self.memo[k][0] is x:
            return self.memo[k][1]
        if self.terminal(x):
            r = (1, 1, 1, Counter([self.key(x)]))
        else:
            n = self.ref.cls_of(x)
            idx = Counter([self.key(x)])
            nodes, dist, weighted = 1, 1, 0
            for (fn, ft) in self.ref.cls[n]["fields"]:
                c = self.ref.field(x, n, fn)
                cn, cd, cw, ci = self.meta(c)
                core = ft[1] if ft[0] == "ann" else ft
                lay = self.layers(core[1], self.ref.cls_of(c)) if core[0] == "cls" and self.ref.cls_of(c) is not None else 0
                nodes += lay + cn
                dist = max(dist, cd + lay + 1)
                weighted += cw
                idx.update(ci)
            r = (nodes, dist, weighted + dist, idx)
        self.memo[k] = (x, r)
        return r


def check_program(ctx, w, p, how):
    if w.ref.conforms(p, w.start_type()) is not None:
        ctx.stat("foreign_failure:ill-typed")
        return
    rm = RefMetaExpansion(w.ref) if w.spec.get("expansion_depthing") else RefMeta(w.ref)
    todo = [p]
    n_nodes = 0
    while todo:
        x = todo.pop()
        if rm.terminal(x) and w.ref.cls_of(x) is None:
            continue
        if type(x) is tuple:
            todo.extend(rm.children(x))  # a tuple cannot carry labels itself; the nodes inside it must
            continue
        n_nodes += 1
        where = "tuple-below" if _any_tuple(rm, x) else ("list-below" if _any_list(rm, x) else "plain")
        d = getattr(x, "__dict__", {})
        if not d.get("gengy_labeled", False):
            ctx.violate(f"C11/labels-absent/{w.rep_kind}", f"{how}: a {'list' if isinstance(x, list) else 'node'} of the program carries no metadata; program={render_value(p, w.ref)}")
            return
        nodes, dist, weighted, idx = rm.meta(x)
        got = (d.get("gengy_nodes"), d.get("gengy_distance_to_term"), d.get("gengy_weighted_nodes"))
        for name, g, want in zip(("nodes", "distance", "weighted"), got, (nodes, dist, weighted)):
            if g != want:
                ctx.violate(f"C11/{name}/{where}",
                            f"{how} on {w.rep_kind}: gengy {name} = {g}, independent traversal = {want} for sub-program {render_value(x, w.ref)}")
                return
        ttw = d.get("gengy_types_this_way")
        gi = Counter()
        try:
            for t, vs in ttw.items():
                for v in vs:
                    gi[rm.key(v)] += 1
        except Exception:
            ctx.violate(f"C11/types-index/unreadable", f"{how}: types index unreadable")
            return
        if gi != idx:
            missing = sorted((idx - gi))[:3]
            extra = sorted((gi - idx))[:3]
            ctx.violate(f"C11/types-index/{where}/{'missing' if missing else 'extra'}",
                        f"{how} on {w.rep_kind}: types index of {render_value(x, w.ref)} differs: missing {[m[0] for m in missing]} extra {[e[0] for e in extra]}")
            return
        todo.extend(rm.children(x))
    ctx.stat("programs_checked")
    ctx.stat("nodes_checked", n_nodes)
    if n_nodes >= 2:
        ctx.nontrivial = True


def _any_tuple(rm, x):
    return _contains(rm, x)[0]


def _any_list(rm, x):
    return _contains(rm, x)[1]


def _contains(rm, x):
    """(a tuple below or at x, a list below or at x), memoised per object"""
    memo = rm.__dict__.setdefault("cont_memo", {})
    k = id(x)
    hit = memo.get(k)
    if hit is not None and hit[0] is x:
        return hit[1]
    t = type(x) is tuple
    li = isinstance(x, list)
    if not rm.terminal(x):
        for c in rm.children(x):
            ct, cl = _contains(rm, c)
            t = t or ct
            li = li or cl
    memo[k] = (x, (t, li))
    return (t, li)


def other_grammar_activity(ctx, w):
    """F13 (history), unjudged: in between, another grammar is extracted from the SAME classes in the other depth-counting mode
    and programs are created from it; nothing of that may show in the metadata of the judged grammar's programs"""
    from geneticengine.grammar.grammar import extract_grammar
    from geneticengine.representations.tree.initializations import MaxDepthDecider
    from geneticengine.representations.tree.treebased import TreeBasedRepresentation
    from ..seams import SimRandom

    ctx.faults["carry_over"] += 1
    ctx.stat("history:other-depth-mode-grammar")
    try:
        g2 = extract_grammar(w.built.considered(), w.built.cls[w.spec["start"]], True)
        rnd0 = SimRandom(ctx, "uniform", log=False)
        rep2 = TreeBasedRepresentation(g2, MaxDepthDecider(rnd0, g2, g2.get_min_tree_depth() + 2))
        for _ in range(2):
            rep2.create_genotype(rnd0)
    except Exception:
        pass  # unjudged


def directed(tier):
    """the shipped grammars and the test-suite hierarchies (real classes) under seeded configurations"""
    from ..world import corpus_directed

    return corpus_directed(tier, per_spec_quick=3, per_spec_thorough=12)


def run(ctx):
    H = ctx.H
    spec_kw = {}
    if ctx.params.get("corpus") is None and H.draw(6) == 5:
        # the other depth-counting mode, modelled where the documentation defines it (no lists, tuples, unions)
        from ..spec import gen_spec

        spec = gen_spec(H, features(**{**FEAT, "list": 0, "annlist": 0, "union": 0, "tuple": 0, "interval": 0, "self_ref": 0, "nested_list": 0,
                                       "nested_generic": 0, "base_in_list": 0, "nested": 3}))
        spec["expansion_depthing"] = True
        spec_kw = {"spec": spec}
        ctx.stat("expansion_depthing_runs")
    w = make_world(ctx, FEAT, **spec_kw, reps=("tree", "tree", "tree", "ge", "sge", "dsge", "stack"), delta=(1, 2, 2, 3, 4), deciders=("grow", "full", "full", "pigrow", "progressive"))
    try:
        ctx.sample = w.describe()
        if not w.extract().ok:
            ctx.stat("foreign_failure:extract")
            return
        if not w.construct().ok:
            ctx.stat("foreign_failure:construct")
            return
        ctx.sample = w.describe()
        n_ops = 1 + H.draw(10 if ctx.tier == "quick" else 30)
        for _ in range(n_ops):
            if H.draw(6) == 0:
                other_grammar_activity(ctx, w)
            res = w.random_op({"create": 3, "map": 1, "mutate": 4, "crossover": 3})
            if res.foreign:
                ctx.stat("foreign_failure:exception")
                continue
            if res.kind == "map" and res.ok:
                check_program(ctx, w, res.phenotype, "map")
            for idx in res.new:
                if w.rep_kind == "tree":
                    check_program(ctx, w, w.pool[idx], res.kind)
                else:
                    m = w.op_map(idx)
                    if m.ok:
                        check_program(ctx, w, m.phenotype, f"{res.kind}+map")
    finally:
        w.dispose()
