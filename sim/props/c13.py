"""C13 -- fitness is computed from the phenotype, once, and counted honestly; parallel == sequential.

Simulated: N5 -- the process pool behind ParallelEvaluator is SimPool: arguments cross a
simulated process boundary (dill round-trip), stream S decides chunking, which worker runs
next, stalls, completion order (F9, F10); N7 -- histories of evaluate calls over populations
mixing new, already-evaluated and duplicate individuals (F12), a single individual, 1-3
problems sharing individuals, steps that re-present individuals.  The fitness function is an
injective function of the program that appends to an invocation log.
"""
from __future__ import annotations

from ..gpworld import build_step, gen_step, make_intrep
from ..seams import SimClock, SimRandom, installed_pool

ID = "C13"
LEVEL = "exploration"
RULE = ("one run = one history of <= 8 evaluate calls (directly, through a tracker, or through GP steps that re-present individuals) "
        "over populations of 1..12 individuals mixing new, evaluated and duplicate ones, 1-3 problems (single-objective both "
        "directions, multi-objective with list / bool minimise, with and without user aggregate), executed once with the sequential "
        "evaluator and once with the parallel evaluator on an identical copy of the population under a seeded worker schedule; "
        "non-trivial = at least one evaluate call received an already-evaluated or duplicate individual, or the parallel schedule "
        "completed out of submission order; distinct = distinct completion orders x histories (event-log digests)")
STATES_MEASURE = "distinct worker completion orders observed"
COMPONENTS_REAL = ["geneticengine.evaluation.{api,sequential,parallel}", "geneticengine.solutions.individual.Individual", "geneticengine.problems.*",
                   "geneticengine.algorithms.gp.population.Population", "geneticengine.evaluation.tracker.*", "dill (argument copy)"]
COMPONENTS_STUB = ["pathos ProcessingPool (SimPool: no fork, the mapped function is not pickled, no worker death)", "representation (integers)"]
ASSUMPTIONS = ["SimPool models pool.map / imap / uimap / amap contracts; real pathos workers are outside the scheduler's control",
               "the fitness function is deterministic, so sequential and parallel evaluation are comparable value by value"]


def budget(tier):
    if tier == "thorough":
        return {"runs": 100000, "run_timeout": 120, "max_wall": 1500}
    return {"runs": 6000, "run_timeout": 60, "max_wall": 200}


def f_of(v, j=0):
    # injective in v for each component: a mis-paired result is visible
    return float((v * 7919 + 13 * j) % 100003) + j * 0.5


def gen_history(H):
    nprob = 1 + H.draw(3)
    probs = []
    for i in range(nprob):
        k = H.weighted([("so", 3), ("mo_list", 2), ("mo_bool", 1), ("mo_agg", 1)])
        probs.append({"kind": k, "minimize": [bool(H.draw(2)) for _ in range(3)], "k": 2 + H.draw(2), "reuse_buffer": bool(H.draw(3) == 2),
                      # the form in which a multi-objective fitness function hands back its components (any iterable of numbers)
                      "returns": H.pick(["list", "list", "tuple", "generator", "map", "ndarray"]),
                      "so_returns": H.pick(["float", "float", "int", "np.float64", "np.int64", "np.uint64", "np.uint32"])})
        # several live problems may be built over the SAME fitness-function object (other direction / other aggregate)
        mates = [j for j in range(i) if (probs[j]["kind"] == "so") == (k == "so")]
        if mates and H.draw(2):
            j = H.pick(mates)
            probs[i]["shares_ff_with"] = probs[j].get("shares_ff_with", j)
            probs[i]["k"] = probs[j]["k"]
            probs[i]["reuse_buffer"] = probs[j]["reuse_buffer"]
            probs[i]["returns"] = probs[j]["returns"]
            probs[i]["so_returns"] = probs[j]["so_returns"]
    n_ind = 1 + H.draw(12) if H.draw(4) else 9 + H.draw(24)
    calls = []
    for _ in range(1 + H.draw(8)):
        size = 1 + H.draw(min(n_ind, 8)) if H.draw(4) else 1 + H.draw(n_ind)
        members = [H.draw(n_ind) for _ in range(size)]
        calls.append({"problem": H.draw(nprob), "members": members,
                      "via": H.weighted([("evaluator", 4), ("tracker", 2), ("population", 1), ("step", 2), ("default_tracker", 2), ("gp", 2)])})
    fault_call = H.draw(len(calls)) if H.draw(4) == 0 else None  # the call during which one fitness invocation raises
    return {"problems": probs, "n_ind": n_ind, "genotypes": [H.draw(50) for _ in range(n_ind)], "calls": calls, "fault_call": fault_call}


class Exec:
    def __init__(self, ctx, hist, parallel, step_descs, rnd_policy):
        from geneticengine.evaluation.parallel import ParallelEvaluator
        from geneticengine.evaluation.sequential import SequentialEvaluator
        from geneticengine.problems import MultiObjectiveProblem, SingleObjectiveProblem
        from geneticengine.solutions.individual import Individual

        self.ctx = ctx
        self.hist = hist
        self.log = []  # (problem index, program value)
        self.rep = make_intrep()
        self.problems = []
        self.ffs = {}
        self.fault = [None]  # [program value for which the next fitness invocation raises] (F15: a failing user callback)
        self.cur = [None]  # [index of the problem the current call evaluates for] (a shared fitness function cannot know; a plain
        # list, so that closures do not drag the simulator context across the simulated process boundary)
        for pi, p in enumerate(hist["problems"]):
            self.problems.append(self.make_problem(pi, p))
        self.inds = [Individual(g, self.rep) for g in hist["genotypes"]]
        self.evaluator = ParallelEvaluator() if parallel else SequentialEvaluator()
        self.parallel = parallel

    def make_problem(self, pi, p):
        from geneticengine.problems import MultiObjectiveProblem, SingleObjectiveProblem

        log = self.log
        cur = self.cur
        fault = self.fault
        shared = p.get("shares_ff_with")
        if p["kind"] == "so":
            def ff(prog, rtype=p.get("so_returns", "float")):
                log.append((cur[0], prog.v, prog))
                if fault[0] is not None and fault[0] == prog.v:
                    fault[0] = None
                    log.pop()  # an invocation that raises computed no fitness
                    raise ZeroDivisionError("injected by the simulator: the fitness function fails for this program")
                x = f_of(prog.v)
                if rtype == "float":
                    return x
                if rtype == "int":
                    return int(x)
                import numpy as np

                return getattr(np, rtype[3:])(x)
            ff = self.ffs[shared] if shared is not None else ff
            self.ffs[pi] = ff
            return SingleObjectiveProblem(ff, minimize=p["minimize"][0])

        buf = [0.0] * p["k"]

        def ffm(prog, k=p["k"], reuse=(p.get("reuse_buffer") and p.get("returns", "list") == "list"), form=p.get("returns", "list")):
            log.append((cur[0], prog.v, prog))
            if fault[0] is not None and fault[0] == prog.v:
                fault[0] = None
                log.pop()  # an invocation that raises computed no fitness
                raise ZeroDivisionError("injected by the simulator: the fitness function fails for this program")
            if form == "tuple":
                return tuple(f_of(prog.v, j) for j in range(k))
            if form == "generator":
                return (f_of(prog.v, j) for j in range(k))
            if form == "map":
                return map(lambda j: f_of(prog.v, j), range(k))
            if form == "ndarray":
                import numpy as np

                return np.array([f_of(prog.v, j) for j in range(k)])
            if reuse:
                # a fitness function that fills and returns the same list object every time
                for j in range(k):
                    buf[j] = f_of(prog.v, j)
                return buf
            return [f_of(prog.v, j) for j in range(k)]
        ffm = self.ffs[shared] if shared is not None else ffm
        self.ffs[pi] = ffm
        if p["kind"] == "mo_list":
            return MultiObjectiveProblem(list(p["minimize"][: p["k"]]), ffm)
        if p["kind"] == "mo_bool":
            return MultiObjectiveProblem(p["minimize"][0], ffm)
        return MultiObjectiveProblem(list(p["minimize"][: p["k"]]), ffm, aggregate_fitness=lambda comps: comps[0] - 2 * comps[-1])

    def expected(self, pi, v):
        p = self.hist["problems"][pi]
        if p["kind"] == "so":
            c = [f_of(v)]
            return (-c[0] if p["minimize"][0] else c[0]), c
        c = [f_of(v, j) for j in range(p["k"])]
        if p["kind"] == "mo_agg":
            return c[0] - 2 * c[-1], c
        mins = p["minimize"][: p["k"]] if p["kind"] == "mo_list" else [p["minimize"][0]] * p["k"]
        return sum(-x if m else x for x, m in zip(c, mins)), c


def run(ctx):
    from geneticengine.algorithms.gp.population import Population
    from geneticengine.evaluation.tracker import MultiObjectiveProgressTracker, SingleObjectiveProgressTracker
    from geneticengine.problems import SingleObjectiveProblem

    H = ctx.H
    hist = gen_history(H)
    step_descs = [gen_step(H, max_depth=2, allow=("elitism", "tournament", "identity", "mutation", "crossover", "novelty")) for _ in hist["calls"]]
    ctx.sample = {"problems": hist["problems"], "genotypes": hist["genotypes"], "calls": hist["calls"][:6]}
    results = {}
    faulted = False
    clock = SimClock(ctx)
    for mode in ("sequential", "parallel"):
        ex = Exec(ctx, hist, mode == "parallel", step_descs, "uniform")
        rnd = SimRandom(ctx, "uniform", name=mode, log=False, chooser=__import__("sim.core", fromlist=["Chooser"]).Chooser("R2", 12345))
        trackers = {}
        seen_pairs = set()
        interesting = False
        with installed_pool(ctx, clock) as pool:
            for ci, call in enumerate(hist["calls"]):
                pi = call["problem"]
                problem = ex.problems[pi]
                ex.cur[0] = pi
                members = [ex.inds[i] for i in call["members"]]
                if len(set(call["members"])) < len(members) or any(m.has_fitness(problem) for m in members):
                    interesting = True
                    ctx.faults["represent"] += 1
                n0 = len(ex.log)
                c0 = ex.evaluator.number_of_evaluations()
                ex.mark = (c0, n0)
                armed = hist.get("fault_call") == ci and call["via"] in ("evaluator", "tracker")
                if armed:
                    # the caller catches the exception of its own fitness function and goes on using the same individuals
                    ex.fault[0] = members[len(members) // 2].genotype
                    ctx.faults["callback_error"] += 1
                fresh = len({id(m) for m in members if not m.has_fitness(problem)})
                try:
                    if call["via"] == "evaluator":
                        ex.evaluator.evaluate(problem, members)
                    elif call["via"] == "gp":
                        # a whole GP run with a caller-supplied tracker and a step that evaluates offspring itself
                        from geneticengine.algorithms.gp.gp import GeneticProgramming
                        from geneticengine.evaluation.budget import SearchBudget

                        class Gens(SearchBudget):
                            def __init__(self):
                                self.n = 0

                            def is_done(self, tracker):
                                self.n += 1
                                return self.n > 3

                        T = SingleObjectiveProgressTracker if isinstance(problem, SingleObjectiveProblem) else MultiObjectiveProgressTracker
                        tr = T(problem, ex.evaluator)
                        c_before = tr.get_number_evaluations()
                        desc = ["sequence", [["tournament", 2, True], ["mutation", 1.0], ["evaluate"]]] if ci % 2 else step_descs[ci]
                        GeneticProgramming(problem=problem, budget=Gens(), representation=ex.rep, random=rnd, tracker=tr,
                                           population_size=max(2, len(members)), step=build_step(desc)).search()
                        if tr.get_number_evaluations() - c_before != len(ex.log) - n0:
                            ctx.violate(f"C13/counter/{mode}/gp-run/{'under' if tr.get_number_evaluations() - c_before < len(ex.log) - n0 else 'over'}",
                                        f"{mode}: a GP run with a caller-supplied tracker reports {tr.get_number_evaluations() - c_before} evaluations, "
                                        f"the fitness function was invoked {len(ex.log) - n0} times (step {desc})")
                            return
                        continue
                    elif call["via"] == "default_tracker":
                        if mode == "sequential":
                            # a tracker built WITHOUT an evaluator (the library default): it counts its own evaluations only
                            T = SingleObjectiveProgressTracker if isinstance(problem, SingleObjectiveProblem) else MultiObjectiveProgressTracker
                            tr = T(problem)
                            before = tr.get_number_evaluations()
                            tr.evaluate(members)
                            if before != 0 or tr.get_number_evaluations() != len(ex.log) - n0:
                                ctx.violate("C13/counter/default-tracker/not-its-own-evaluations",
                                            f"a freshly built tracker (no evaluator given) reported {before} evaluations before and {tr.get_number_evaluations()} after "
                                            f"evaluating a batch for which the fitness function was invoked {len(ex.log) - n0} times")
                                return
                            continue
                        ex.evaluator.evaluate(problem, members)
                    elif call["via"] in ("tracker", "population"):
                        if pi not in trackers:
                            T = SingleObjectiveProgressTracker if isinstance(problem, SingleObjectiveProblem) else MultiObjectiveProgressTracker

                            class CountAtRegistration:
                                """a recorder that reads the evaluation counter while an individual is being registered"""

                                def register(self, tracker, individual, problem, is_best, __mode=mode):
                                    c_mark, n_mark = ex.mark
                                    counted_now = tracker.get_number_evaluations() - c_mark
                                    invoked_now = len(ex.log) - n_mark
                                    if counted_now != invoked_now and not ctx.violations:
                                        ctx.violate(f"C13/counter/{__mode}/at-registration/{'under' if counted_now < invoked_now else 'over'}",
                                                    f"{__mode}: while an individual was being registered the evaluation counter had advanced by {counted_now}, "
                                                    f"the fitness function had been invoked {invoked_now} times in this call")

                            trackers[pi] = T(problem, ex.evaluator, recorders=[CountAtRegistration()])
                        if call["via"] == "tracker":
                            trackers[pi].evaluate(members)
                        else:
                            Population(iter(members), trackers[pi], ci)
                    else:
                        step = build_step(step_descs[ci])
                        out = list(step.apply(problem, ex.evaluator, ex.rep, rnd, members, max(1, len(members) // 2), ci))
                        ex.evaluator.evaluate(problem, out)
                        for o in out:
                            if not any(o is x for x in ex.inds):
                                ex.inds.append(o)
                except Exception as e:
                    from ..world import short_tb, exc_site

                    if armed and isinstance(e, ZeroDivisionError) and "injected by the simulator" in str(e):
                        ex.fault[0] = None
                        faulted = True
                        continue  # what a failed call leaves behind is judged by the later calls and the whole-history oracles
                    ctx.violate(f"C13/exception/{mode}/{call['via']}/{type(e).__name__}@{exc_site(e)}", f"{mode} evaluation via {call['via']} raised {short_tb(e)}")
                    return
                ex.fault[0] = None
                invoked = ex.log[n0:]
                counted = ex.evaluator.number_of_evaluations() - c0
                if call["via"] != "step" and len(invoked) != fresh:
                    ctx.violate(f"C13/invocations/{mode}/{'more' if len(invoked) > fresh else 'fewer'}-than-unevaluated-individuals",
                                f"{mode} via {call['via']}: {len(members)} individuals presented, {fresh} distinct ones without a fitness, "
                                f"but the fitness function was invoked {len(invoked)} times")
                    return
                if counted != len(invoked):
                    ctx.violate(f"C13/counter/{mode}/{'multi' if ex.hist['problems'][pi]['kind'] != 'so' else 'single'}-objective/{'under' if counted < len(invoked) else 'over'}",
                                f"{mode}: the evaluation counter advanced by {counted} while the fitness function of problem {pi} ({hist['problems'][pi]['kind']}) was invoked {len(invoked)} times (via {call['via']})")
                    return
            # whole-history oracles
            from collections import Counter

            per = Counter()
            # sequential: an individual caches its phenotype object, so one program object must never be evaluated twice for a
            # problem (in the simulated pool every task sees a fresh copy, so identity says nothing there)
            if mode == "sequential":
                for (pi, v, prog) in ex.log:
                    per[(pi, id(prog))] += 1
                worst = [k for k, c in per.items() if c > 1]
                if worst:
                    ctx.violate(f"C13/evaluated-more-than-once/{mode}", f"{mode}: the fitness function of problem {worst[0][0]} was invoked {per[worst[0]]} times on the same program object")
                    return
            for ind in ex.inds:
                for pi, problem in enumerate(ex.problems):
                    if not ind.has_fitness(problem):
                        continue
                    f = ind.get_fitness(problem)
                    agg, comps = ex.expected(pi, ind.genotype)
                    if list(f.fitness_components) != comps:
                        ctx.violate(f"C13/fitness-not-of-own-program/{mode}", f"{mode}: individual with program {ind.genotype} holds components {f.fitness_components}, its own program evaluates to {comps}")
                        return
                    if f.maximizing_aggregate != agg:
                        ctx.violate(f"C13/aggregate/{hist['problems'][pi]['kind']}/{mode}",
                                    f"{mode}: aggregate {f.maximizing_aggregate} for components {comps} of a {hist['problems'][pi]} problem, expected {agg}")
                        return
            results[mode] = [[(repr(ind.get_fitness(p).maximizing_aggregate), tuple(ind.get_fitness(p).fitness_components)) if ind.has_fitness(p) else None
                              for p in ex.problems] for ind in ex.inds[: hist["n_ind"]]]
            if mode == "parallel":
                for comp in pool.stats or []:
                    if list(comp) != sorted(comp):
                        interesting = True
                ctx.shape = str(pool.stats)
        if interesting:
            ctx.nontrivial = True
    if faulted:
        # after a failed batch the two evaluators may legitimately differ in WHICH individuals got evaluated (one by one vs the
        # whole batch or nothing); what both evaluated must still agree
        pair = [[(a, b) for a, b in zip(ra, rb)] for ra, rb in zip(results.get("sequential") or [], results.get("parallel") or [])]
        for i, row in enumerate(pair):
            for a, b in row:
                if a is not None and b is not None and a != b:
                    ctx.violate("C13/parallel-differs-from-sequential", f"individual {i} holds different fitness after parallel evaluation than after sequential evaluation")
                    return
        return
    if results.get("sequential") != results.get("parallel"):
        diff = [i for i, (a, b) in enumerate(zip(results["sequential"], results["parallel"])) if a != b]
        ctx.violate("C13/parallel-differs-from-sequential", f"individuals {diff[:5]} hold different fitness after parallel evaluation than after sequential evaluation of the same history")
