"""C16 -- elitism keeps the best: top-k selection and monotone best fitness.

Simulated/generated: populations with ties and duplicates, both optimisation directions, elite
counts 1..n, inputs as list / Population / one-shot iterator (F11), already-evaluated and new
individuals mixed (F12); GP runs whose step reserves elitism slots (a probe observes how many
individuals the elitism step is asked for in every generation).
"""
from __future__ import annotations

from collections import Counter

from ..gpworld import make_intrep
from ..seams import SimRandom

ID = "C16"
LEVEL = "exploration"
RULE = ("one run = either one ElitismStep application (population 1..24 over a small fitness alphabet so that ties and duplicates "
        "abound, direction, elite count 1..n, input form, partially pre-evaluated) checked for: exactly k members, all from the "
        "input (as a multiset by identity), no excluded individual strictly better than an included one; or one GP run of >= 4 "
        "generations whose step is observed to ask the elitism step for >= 1 individual in every generation, checked for a "
        "non-worsening per-generation best; non-trivial = the population had >= 2 distinct fitness values and k < n, or the GP run "
        "had an elite slot in every generation; distinct = distinct event-log digests")
COMPONENTS_REAL = ["geneticengine.algorithms.gp.operators.elitism.ElitismStep", "geneticengine.problems.helpers.sort_population", "geneticengine.problems.*",
                   "geneticengine.algorithms.gp.operators.combinators", "geneticengine.algorithms.gp.gp", "geneticengine.evaluation.sequential"]
COMPONENTS_STUB = ["representation (integers)", "fitness (table lookup on the genotype)", "RandomSource primitives (SimRandom)"]
ASSUMPTIONS = ["no NaN fitness", "single-objective problems (elitism ranks by the maximising aggregate); one multi-objective stratum uses the signed-sum aggregate"]


def budget(tier):
    if tier == "thorough":
        return {"runs": 200000, "run_timeout": 120, "max_wall": 1500}
    return {"runs": 12000, "run_timeout": 60, "max_wall": 200}


def run(ctx):
    from geneticengine.algorithms.gp.gp import GeneticProgramming
    from geneticengine.algorithms.gp.operators.combinators import ParallelStep, SequenceStep
    from geneticengine.algorithms.gp.operators.crossover import GenericCrossoverStep
    from geneticengine.algorithms.gp.operators.elitism import ElitismStep
    from geneticengine.algorithms.gp.operators.mutation import GenericMutationStep
    from geneticengine.algorithms.gp.operators.novelty import NoveltyStep
    from geneticengine.algorithms.gp.operators.selection import TournamentSelection
    from geneticengine.algorithms.gp.population import Population
    from geneticengine.evaluation.budget import SearchBudget
    from geneticengine.evaluation.sequential import SequentialEvaluator
    from geneticengine.evaluation.tracker import MultiObjectiveProgressTracker, SingleObjectiveProgressTracker
    from geneticengine.problems import MultiObjectiveProblem, SingleObjectiveProblem
    from geneticengine.solutions.individual import Individual

    H = ctx.H
    rep = make_intrep(lossy_str=(H.draw(3) == 2))
    rnd = SimRandom(ctx, H.pick(["uniform", "edge", "native"]))
    minimize = bool(H.draw(2))
    multi = H.draw(5) == 4
    alphabet = H.pick([[0, 1], [1, 2, 3], [5, 5, 5, 9], [-3, 0, 3, 1e6], [0.1, 0.2, 0.30000000000000004, 0.3],
                       [1, 2, float("inf")], [float("-inf"), 0, 3], [float("-inf"), 5, float("inf")]])
    if multi and any(x in (float("inf"), float("-inf")) for x in alphabet):
        alphabet = [1, 2, 3]  # inf - inf is NaN in a signed-sum aggregate: outside the property's premise (no NaN fitness)
    table = {}
    # the Python / numpy type in which the user's fitness function hands back its number (the library converts with float())
    integral = all(float(x).is_integer() for x in alphabet if x not in (float("inf"), float("-inf"))) and not any(x in (float("inf"), float("-inf")) for x in alphabet)
    small_unsigned = integral and all(0 <= x <= 255 for x in alphabet)
    rtype = H.pick(["float", "float", "int", "np.float64", "np.float32", "np.int64", "np.int8", "np.uint8", "np.uint64", "bool"])
    if (rtype in ("int", "np.int64") and not integral) or (rtype == "np.int8" and not (integral and all(-128 <= x <= 127 for x in alphabet))) \
            or (rtype in ("np.uint8", "np.uint64") and not small_unsigned) or (rtype == "bool" and not all(x in (0, 1) for x in alphabet)) \
            or (rtype == "np.float32" and not integral):
        rtype = "float"

    def value(g):
        if g not in table:
            table[g] = alphabet[(g * 2654435761 >> 7) % len(alphabet)]
        return float(table[g])

    def returned(x):
        if rtype == "float":
            return x
        if rtype == "int":
            return int(x)
        if rtype == "bool":
            return bool(x)
        import numpy as np

        return getattr(np, rtype[3:])(x)

    if multi:
        scalar = bool(H.draw(2))  # `minimize` given as one bool for all objectives (resolved lazily at the first evaluation)
        mins = [minimize, minimize] if scalar else [minimize, not minimize]
        form = H.pick(["list", "list", "tuple", "generator", "map", "iter"])  # any iterable of numbers is a legal return value

        def ff_mo(p):
            comps = [returned(value(p.v)), returned(value(p.v + 1))]
            if form == "tuple":
                return tuple(comps)
            if form == "generator":
                return (c for c in comps)
            if form == "map":
                return map(lambda c: c, comps)
            if form == "iter":
                return iter(comps)
            return comps

        problem = MultiObjectiveProblem(minimize if scalar else mins, ff_mo)

        def agg(g):
            c = [value(g), value(g + 1)]
            return sum(-x if m else x for x, m in zip(c, mins))
    else:
        problem = SingleObjectiveProblem(lambda p: returned(value(p.v)), minimize=minimize)

        def agg(g):
            return -value(g) if minimize else value(g)

    parallel = H.draw(4) == 3
    if parallel:
        import contextlib
        from geneticengine.evaluation.parallel import ParallelEvaluator
        from ..seams import installed_pool

        evaluator = ParallelEvaluator()
        pool_cm = installed_pool(ctx)
        ctx.stat("parallel_evaluator_runs")
    else:
        import contextlib

        evaluator = SequentialEvaluator()
        pool_cm = contextlib.nullcontext()
    with pool_cm:
        return run_body(ctx, H, rep, rnd, minimize, multi, problem, evaluator, agg, value, rtype)


def run_body(ctx, H, rep, rnd, minimize, multi, problem, evaluator, agg, value, rtype):
    from geneticengine.algorithms.gp.gp import GeneticProgramming
    from geneticengine.algorithms.gp.operators.combinators import ParallelStep, SequenceStep
    from geneticengine.algorithms.gp.operators.crossover import GenericCrossoverStep
    from geneticengine.algorithms.gp.operators.elitism import ElitismStep
    from geneticengine.algorithms.gp.operators.mutation import GenericMutationStep
    from geneticengine.algorithms.gp.operators.novelty import NoveltyStep
    from geneticengine.algorithms.gp.operators.selection import TournamentSelection
    from geneticengine.algorithms.gp.population import Population
    from geneticengine.evaluation.budget import SearchBudget
    from geneticengine.evaluation.sequential import SequentialEvaluator
    from geneticengine.evaluation.tracker import MultiObjectiveProgressTracker, SingleObjectiveProgressTracker
    from geneticengine.problems import MultiObjectiveProblem, SingleObjectiveProblem
    from geneticengine.solutions.individual import Individual

    mode = H.weighted([("direct", 3), ("gp", 1)])
    ctx.stat("mode:" + mode)
    if mode == "direct":
        n = 1 + H.draw(24)
        base = [Individual(H.draw(40), rep) for _ in range(n)]
        members = list(base)
        # duplicates: the same individual object presented twice
        for _ in range(H.draw(3)):
            members.append(base[H.draw(len(base))])
        n = len(members)
        k = H.pick([1, n, 1 + H.draw(n), 1 + H.draw(n)])
        form = H.pick(["list", "population", "iterator"])
        pre = H.draw(3)
        if not multi and H.draw(3) == 2:
            # F12/F13: the same individuals were evaluated before under ANOTHER problem that shares the fitness function but
            # optimises in the opposite direction (still alive)
            other = SingleObjectiveProblem(problem.ff["ff"], minimize=not minimize)
            ctx._keepalive = other
            evaluator.evaluate(other, members)
            ctx.faults["represent"] += 1
        if not multi and H.draw(4) == 0:
            # F13 (history): the individuals were last evaluated under a problem that no longer exists; the problem they are
            # judged under now is a new object (which the allocator may well place at the dead one's address)
            def under_a_problem_that_dies():
                tmp = SingleObjectiveProblem(lambda p: -value(p.v) - 1.0, minimize=not minimize)
                SequentialEvaluator().evaluate(tmp, members)
                return id(tmp)

            dead_id = under_a_problem_that_dies()
            main_ff = problem.ff["ff"]
            spare = []
            for _ in range(8):
                problem = SingleObjectiveProblem(main_ff, minimize=minimize)
                if id(problem) == dead_id:
                    ctx.stat("history:new-problem-at-the-dead-one's-address")
                    break
                spare.append(problem)
            ctx.faults["carry_over"] += 1
            ctx.stat("history:evaluated-under-a-dead-problem")
        if pre:
            evaluator.evaluate(problem, members if pre == 2 else members[: n // 2])
        if form == "population":
            tr = (MultiObjectiveProgressTracker if multi else SingleObjectiveProgressTracker)(problem, evaluator)
            popn = Population(iter(members), tr, 0)
        elif form == "iterator":
            popn = (m for m in members)
            ctx.faults["one_shot_input"] += 1
        else:
            popn = members
        ctx.sample = {"population": [m.genotype for m in members], "values": [value(m.genotype) for m in members], "k": k,
                      "minimize": minimize, "form": form, "multi_objective": multi, "fitness_return_type": rtype}
        ctx.log("direct", [m.genotype for m in members], k, form, minimize, multi, rtype, pre)
        try:
            out = list(ElitismStep().apply(problem, evaluator, rep, rnd, popn, k, 1))
        except Exception as e:
            from ..world import short_tb

            ctx.violate(f"C16/exception/{form}/{type(e).__name__}", f"ElitismStep on a {form} raised {short_tb(e)}")
            return
        aggs = [agg(m.genotype) for m in members]
        if len(set(aggs)) >= 2 and k < n:
            ctx.nontrivial = True
        if len(out) != k:
            ctx.violate(f"C16/count/{'one-shot-input' if form == 'iterator' else 'list-input'}/{'over' if len(out) > k else 'under'}",
                        f"ElitismStep asked for {k} of {n} individuals ({form}) returned {len(out)}")
            return
        cin = Counter(id(m) for m in members)
        cout = Counter(id(o) for o in out)
        if any(cout[i] > cin.get(i, 0) for i in cout):
            ctx.violate("C16/membership/not-from-input", "ElitismStep returned an individual that is not in its input (or more copies than the input holds)")
            return
        rest = cin - cout
        byid = {id(m): m for m in members}
        worst_in = min(agg(byid[i].genotype) for i in cout)
        best_out = max([agg(byid[i].genotype) for i in rest] or [float("-inf")])
        if best_out > worst_in:
            ctx.violate(f"C16/top-k/{'minimise' if minimize else 'maximise'}/excluded-better-than-included",
                        f"ElitismStep k={k}: an excluded individual (aggregate {best_out}) is strictly better than an included one ({worst_in}); "
                        f"values={[value(m.genotype) for m in members]} minimise={minimize}")
        ctx.stat("direct_checked")
        return
    # ---- GP run with an observed elitism slot
    asked = {}

    class ProbedElitism(ElitismStep):
        def apply(self, problem, evaluator, representation, random, population, target_size, generation):
            asked[generation] = asked.get(generation, 0) + target_size
            return super().apply(problem, evaluator, representation, random, population, target_size, generation)

    pop = 2 + H.draw(23)
    we = H.pick([1, 1, 5, 10, 50])
    wn = H.pick([0, 1, 5])
    wr = H.pick([1, 10, 90])
    from geneticengine.algorithms.gp.operators.selection import LexicaseSelection

    lexicase = multi and bool(H.draw(2))
    sel = LexicaseSelection() if lexicase else TournamentSelection(1 + H.draw(5))
    branches = [(ProbedElitism(), we), (NoveltyStep(), wn),
                (SequenceStep(sel, GenericCrossoverStep(H.pick([0.0, 0.5, 1.0])), GenericMutationStep(H.pick([0.5, 1.0]))), wr)]
    order = H.permutation(3)  # the elitism slot may be listed before or after the other members
    nested = H.draw(3) == 0
    if nested:
        # the elitism slot sits in an inner ParallelStep, which receives the whole population but is asked for a part of it
        from geneticengine.algorithms.gp.operators.combinators import IdentityStep

        branches[0] = (ParallelStep([branches[0][0], IdentityStep()], weights=[H.pick([1, 3]), 1]), max(we, 2))
    step = ParallelStep([branches[i][0] for i in order], weights=[branches[i][1] for i in order])
    gens = 4 + H.draw(6)
    best_by_gen = {}

    class Rec:
        def register(self, tracker, individual, problem, is_best):
            g = individual.metadata.get("generation")
            a = agg(individual.genotype)
            if g not in best_by_gen or a > best_by_gen[g]:
                best_by_gen[g] = a

    class GenBudget(SearchBudget):
        def __init__(self):
            self.calls = 0

        def is_done(self, tracker):
            self.calls += 1
            return self.calls > gens

    tracker = (MultiObjectiveProgressTracker if multi else SingleObjectiveProgressTracker)(problem, evaluator, recorders=[Rec()])
    ctx.sample = {"gp_population": pop, "weights": [we, wn, wr], "member_order": [["elitism", "novelty", "breed"][i] for i in order], "lexicase": lexicase, "elitism_nested": nested,
                  "generations": gens, "minimize": minimize, "multi_objective": multi, "fitness_return_type": rtype}
    try:
        GeneticProgramming(problem=problem, budget=GenBudget(), representation=rep, random=rnd, tracker=tracker, population_size=pop, step=step).search()
    except Exception as e:
        ctx.stat("foreign_failure:" + type(e).__name__)
        return
    elite_every_gen = all(asked.get(g, 0) >= 1 for g in range(1, gens + 1))
    ctx.sample["elitism_asked_per_generation"] = [asked.get(g, 0) for g in range(1, gens + 1)]
    ctx.stat("gp_runs")
    if not elite_every_gen:
        ctx.stat("gp_runs_without_elite_slot")
        return
    ctx.nontrivial = True
    for g in range(1, gens + 1):
        if g in best_by_gen and g - 1 in best_by_gen and best_by_gen[g] < best_by_gen[g - 1]:
            ctx.violate(f"C16/monotone-best/{'minimise' if minimize else 'maximise'}",
                        f"best aggregate fell from {best_by_gen[g - 1]} (generation {g - 1}) to {best_by_gen[g]} (generation {g}) although the elitism step "
                        f"was asked for {asked.get(g)} individual(s); population {pop}, weights {[we, wn, wr]}")
            break
