"""C06 -- crossover recombines parental material; point mutation is local.

Simulated: N1 (all policies), op sequences on a shared pool so that parents are any two pool
members (created, mutated, crossed over), gene lengths 1..256.  Oracle, tree: each child is
one parent with a single subtree replaced by a same-typed subtree of the other parent
(DESIGN A.4).  Linear / structured genotypes: every gene of a child equals the gene of one of
the parents at the same key and index and every gene list has the length one of the parents
has at that key; mutation keeps keys and lengths and changes at most one gene.
"""
from __future__ import annotations

from ..ref import canon
from ..snap import genotype_snapshot
from ..spec import features
from ..world import SynthWorld, make_world, render_value

ID = "C06"
LEVEL = "exploration"
RULE = ("one run = one generated grammar x one of the five representations x decider x gene length (1..256) x random policy x "
        "a seeded operation sequence in which parents are arbitrary pool members; each crossover child is related to its two "
        "parents and each linear/structured mutation to its parent; non-trivial = at least one crossover or mutation result "
        "was related to its parents; distinct = distinct event-log digests")
COMPONENTS_REAL = ["geneticengine.representations.tree.treebased (mutate, tree_crossover, find_in_tree)", "geneticengine.representations.grammatical_evolution.*",
                   "geneticengine.representations.stackgggp", "geneticengine.representations.tree.utils (types index)"]
COMPONENTS_STUB = ["RandomSource.randint/random_float (SimRandom)", "set iteration order (OrderedSimSet)"]
ASSUMPTIONS = ["a child structurally identical to one parent counts as parental material", "for linear/structured crossover nothing is required about which keys survive",
               "tree mutation is outside this property's statement (it speaks of linear or structured genotypes)"]

FEAT = features(list=2, annlist=2, union=1, tuple=1, cls=8, refined=3, nested=1, standalone=1, concrete_start=2, dependent=1, flaky=1, self_ref=1, falsy=1, future_annotations=1, inherited_ctor=1)


def budget(tier):
    if tier == "thorough":
        return {"runs": 150000, "run_timeout": 120, "max_wall": 1500}
    return {"runs": 30000, "run_timeout": 60, "max_wall": 240}


# ---------------------------------------------------------------- tree relation

def subtree_canons(v, ref, out):
    """canonical forms of every value occurring in v (nodes, lists, tuples, base values)"""
    out.add(canon(v, ref))
    if isinstance(v, (list, tuple)):
        for e in v:
            subtree_canons(e, ref, out)
        return
    n = ref.cls_of(v)
    if n is not None:
        for fn, _ in ref.cls[n]["fields"]:
            subtree_canons(ref.field(v, n, fn), ref, out)


def related(c, p1, t, donors, ref):
    """c == p1, or c is p1 with exactly one subtree replaced by a donor subtree conforming to
    the declared type t at that position"""
    if canon(c, ref) == canon(p1, ref):
        return True
    if canon(c, ref) in donors and ref.conforms(c, t) is None:
        return True
    # descend: same shape here, exactly one differing child
    if isinstance(c, list) and isinstance(p1, list):
        if len(c) != len(p1):
            return False
        et = elem_type(t)
        diffs = [(a, b) for a, b in zip(c, p1) if canon(a, ref) != canon(b, ref)]
        return len(diffs) == 1 and et is not None and related(diffs[0][0], diffs[0][1], et, donors, ref)
    if type(c) is tuple and type(p1) is tuple:
        if len(c) != len(p1):
            return False
        tt = tuple_types(t)
        diffs = [(a, b, x) for a, b, x in zip(c, p1, tt or [None] * len(c)) if canon(a, ref) != canon(b, ref)]
        return len(diffs) == 1 and diffs[0][2] is not None and related(diffs[0][0], diffs[0][1], diffs[0][2], donors, ref)
    n, m = ref.cls_of(c), ref.cls_of(p1)
    if n is None or n != m:
        return False
    diffs = [(ref.field(c, n, fn), ref.field(p1, n, fn), ft) for fn, ft in ref.cls[n]["fields"]
             if canon(ref.field(c, n, fn), ref) != canon(ref.field(p1, n, fn), ref)]
    return len(diffs) == 1 and related(diffs[0][0], diffs[0][1], diffs[0][2], donors, ref)


def elem_type(t):
    while t and t[0] == "ann":
        t = t[1]
    if t and t[0] == "list":
        return t[1]
    if t and t[0] == "union":
        for a in t[1]:
            e = elem_type(a)
            if e:
                return e
    return None


def tuple_types(t):
    while t and t[0] == "ann":
        t = t[1]
    if t and t[0] == "tuple":
        return t[1]
    return None


# ---------------------------------------------------------------- linear / structured relation

def keyed(g, kind):
    """genotype as {key: [genes]} with address-free keys"""
    if kind in ("ge", "stack"):
        return {"dna": list(g.dna)}
    from ..seams import type_key

    return {(k if isinstance(k, str) else type_key(k)): list(v) for k, v in g.dna.items()}


def check_linear_child(c, p1, p2):
    for k, genes in c.items():
        la = len(p1[k]) if k in p1 else 0  # a parent without the key contributes the empty list
        lb = len(p2[k]) if k in p2 else 0
        if k not in p1 and k not in p2:
            return f"key-from-nowhere"
        if len(genes) not in (la, lb):
            return "length-of-neither-parent"
        for i, gval in enumerate(genes):
            a = p1[k][i] if (k in p1 and i < len(p1[k])) else None
            b = p2[k][i] if (k in p2 and i < len(p2[k])) else None
            if gval != a and gval != b:
                return "gene-from-neither-parent-at-its-locus"
    return None


def check_linear_mutant(c, p):
    if list(c.keys()) != list(p.keys()):
        return "keys-changed"
    changed = 0
    for k in p:
        if len(c[k]) != len(p[k]):
            return "length-changed"
        changed += sum(1 for a, b in zip(c[k], p[k]) if a != b)
    if changed > 1:
        return "more-than-one-gene-changed"
    return None


def step_stratum(ctx, w, kind):
    """the same relations through the GP operator steps: GenericMutationStep yields, at position i, input i itself or a
    one-gene mutant of input i; GenericCrossoverStep yields the pair (j, j+1) itself or its locus-wise children"""
    from geneticengine.algorithms.gp.operators.crossover import GenericCrossoverStep
    from geneticengine.algorithms.gp.operators.mutation import GenericMutationStep
    from geneticengine.evaluation.sequential import SequentialEvaluator
    from geneticengine.problems import SingleObjectiveProblem
    from geneticengine.solutions.individual import Individual

    H = ctx.H
    n = 2 + H.draw(min(len(w.pool), 8) - 1)
    inds = [Individual(w.pool[H.draw(len(w.pool))], w.rep) for _ in range(n)]
    problem = SingleObjectiveProblem(lambda p: 0.0)
    p = H.pick([0.0, 0.3, 0.5, 0.9, 1.0])
    which = H.pick(["mutation", "crossover"])
    step = GenericMutationStep(p) if which == "mutation" else GenericCrossoverStep(p)
    w.install_flaky()
    w.random.reset_cap()
    try:
        out = list(step.apply(problem, SequentialEvaluator(), w.rep, w.random, list(inds), n, 1))
    except Exception:
        ctx.stat("foreign_failure:step")
        return
    ctx.stat("steps_related")
    ctx.nontrivial = True
    if which == "mutation":
        for i, (o, src) in enumerate(zip(out, inds)):
            if o is src:
                continue
            cause = check_linear_mutant(keyed(o.genotype, kind), keyed(src.genotype, kind))
            if cause:
                ctx.violate(f"C06/{kind}-mutation-step/{cause}", f"GenericMutationStep({p}) output #{i} is not input #{i} nor a one-gene mutant of it: {cause}")
                return
    else:
        for i in range(0, len(out) - 1, 2):
            j = (i // 2) % len(inds)
            if j + 1 >= len(inds):
                break
            a, b = inds[j], inds[j + 1]
            for o in (out[i], out[i + 1]):
                if o is a or o is b:
                    continue
                cause = check_linear_child(keyed(o.genotype, kind), keyed(a.genotype, kind), keyed(b.genotype, kind))
                if cause:
                    ctx.violate(f"C06/{kind}-crossover-step/{cause}", f"GenericCrossoverStep({p}) output #{i} is neither parent #{j}/#{j + 1} nor a locus-wise child of them: {cause}")
                    return


def directed(tier):
    """the shipped grammars and the test-suite hierarchies (real classes) under seeded configurations"""
    from ..world import corpus_directed

    return corpus_directed(tier, per_spec_quick=3, per_spec_thorough=12)


def run(ctx):
    H = ctx.H
    w = make_world(ctx, FEAT)
    try:
        ctx.sample = w.describe()
        if not w.extract().ok:
            ctx.stat("foreign_failure:extract")
            return
        if not w.construct().ok:
            ctx.stat("foreign_failure:construct")
            return
        ctx.sample = w.describe()
        kind = w.rep_kind
        n_ops = 2 + H.draw(12 if ctx.tier == "quick" else 40)
        for _ in range(n_ops):
            pre = None
            res = w.random_op({"create": 3, "map": 1, "mutate": 3, "crossover": 5})
            if not res.ok:
                if res.foreign:
                    ctx.stat("foreign_failure:exception")
                continue
            if kind == "dsge" and res.kind == "create":
                for idx in res.new:
                    w.op_map(idx)  # dynamic SGE genotypes are empty until they are mapped (as evaluation does)
            if res.kind == "crossover":
                i, j = res.args
                p1, p2 = w.pool[i], w.pool[j]
                c1, c2 = (w.pool[k] for k in res.new)
                ctx.nontrivial = True
                if kind == "tree":
                    if w.ref.conforms(p1, w.start_type()) is not None or w.ref.conforms(p2, w.start_type()) is not None:
                        ctx.stat("foreign_failure:ill-typed")
                        continue
                    for child, base, other, tag in ((c1, p1, p2, "first"), (c2, p2, p1, "second")):
                        donors = set()
                        subtree_canons(other, w.ref, donors)
                        ctx.stat("tree_children_related")
                        if not related(child, base, w.start_type(), donors, w.ref):
                            fresh = canon(child, w.ref) != canon(base, w.ref)
                            start_kind = "abstract" if w.ref.is_abstract(w.spec["start"]) else "concrete"
                            ctx.violate(f"C06/tree-crossover/child-not-one-subtree-swap/{start_kind}-start",
                                        f"{tag} child of a tree crossover is not its base parent with one subtree taken from the other parent: "
                                        f"child={render_value(child, w.ref)[:200]} base={render_value(base, w.ref)[:200]} other={render_value(other, w.ref)[:200]}")
                else:
                    kp1, kp2 = keyed(p1, kind), keyed(p2, kind)
                    for child, tag in ((c1, "first"), (c2, "second")):
                        ctx.stat("linear_children_related")
                        cause = check_linear_child(keyed(child, kind), kp1, kp2)
                        if cause:
                            ctx.violate(f"C06/{kind}-crossover/{cause}", f"{tag} child of {kind} crossover: {cause}")
                    if kind == "dsge":
                        for idx in res.new:
                            w.op_map(idx)
            elif res.kind == "mutate" and kind != "tree":
                (i,) = res.args
                ctx.nontrivial = True
                ctx.stat("mutants_related")
                cause = check_linear_mutant(keyed(w.pool[res.new[0]], kind), keyed(w.pool[i], kind))
                if cause:
                    ctx.violate(f"C06/{kind}-mutation/{cause}", f"{kind} mutation: {cause}")
                if kind == "dsge":
                    w.op_map(res.new[0])
        if kind != "tree" and len(w.pool) >= 2 and H.draw(2):
            step_stratum(ctx, w, kind)
    finally:
        w.dispose()
