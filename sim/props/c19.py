"""C19 -- production weights are normalised per non-terminal, stable and respected.

Simulated: N7 -- k-fold re-extraction of the same classes (the weights live in class-level
state that extract_grammar rewrites), F3 for the choosers (boundary draws make
choice_weighted's last bucket certain).  Oracle: after each extraction, per abstract type:
weights >= 0, sum 1 (1e-9), ratios equal the declared ones with unweighted = 1; extraction k+1
changes nothing; in creation with weight-aware deciders every choice_weighted made at the seam
returns an option of positive weight whenever one exists.
"""
from __future__ import annotations

from ..ref import Ref
from ..seams import SimRandom, install_set_order, set_order_seed
from ..spec import Built, features, gen_spec
from ..world import short_tb, exc_site

ID = "C19"
LEVEL = "exploration"
RULE = ("one run = one generated class hierarchy with a seeded subset of productions weighted (zero weights, nested abstract types, "
        "unreachable classes, abstract classes present in or absent from the considered list) extracted 1..5 times in the same "
        "process, followed by creations with weight-aware deciders under boundary-rich random policies; non-trivial = at least one "
        "abstract type has two productions with different declared weights; distinct = distinct event-log digests")
COMPONENTS_REAL = ["geneticengine.grammar.grammar (extract_grammar, update_weights, get_weights)", "geneticengine.grammar.decorators (weight)",
                   "geneticengine.representations.tree.initializations.ProgressivelyTerminalDecider", "geneticengine.random.sources.choice_weighted",
                   "geneticengine.representations.stackgggp (weighted symbol choice)"]
COMPONENTS_STUB = ["RandomSource.randint/random_float (SimRandom)", "set iteration order (OrderedSimSet)"]
ASSUMPTIONS = ["not every production of an abstract type has weight zero", "declared weight of an abstract production (nested abstract type) is 1 unless declared"]

FEAT = features(weights=3, nested=3, unreachable=2, standalone=1, cls=6, refined=3, list=1, annlist=1, union=0, tuple=0, flaky=2, dependent=1, abstract_weights=1, nested_start=1, concrete_start=1, wide_weights=1, future_annotations=1, zero_rules=1)


def budget(tier):
    if tier == "thorough":
        return {"runs": 200000, "run_timeout": 120, "max_wall": 1500}
    return {"runs": 12000, "run_timeout": 60, "max_wall": 200}


def run(ctx):
    H = ctx.H
    install_set_order()
    set_order_seed(ctx.S.draw(2**16))
    spec = gen_spec(H, FEAT)
    b = Built(spec)
    ref = Ref(spec, b)
    try:
        reg = ref.registered()
        declared = {c["name"]: (1.0 if c.get("weight") is None else float(c["weight"])) for c in spec["classes"]}
        # only weights declared on classes that are part of the grammar make it a weighted grammar
        any_weighted = any(c.get("weight") is not None for c in spec["classes"] if c["name"] in reg)
        abstracts = [c["name"] for c in spec["classes"] if c["kind"] in ("abc", "deco") and c["name"] in reg]
        ctx.sample = {"grammar_source": b.source.split("from sim.flaky import Flaky\n", 1)[-1].strip(), "considered": spec["considered"]}
        for a in abstracts:
            ws = {declared[p] for p in ref.productions(a, reg)}
            if len(ws) >= 2:
                ctx.nontrivial = True
        if any_weighted and H.draw(4) == 0:
            # F13 (history): an extraction that the library REJECTS (a negative weight was declared), after which the user corrects
            # the declaration; nothing of the rejected attempt may survive in the classes
            from geneticengine.grammar.decorators import weight as declare_weight

            victims = [c for c in spec["classes"] if c.get("weight") is not None and c["name"] in reg]
            if victims:
                v = victims[H.draw(len(victims))]
                declare_weight(-2.0)(b.cls[v["name"]])
                try:
                    b.extract()
                    ctx.stat("history:negative-weight-accepted")
                except Exception:
                    ctx.stat("history:rejected-extraction")
                declare_weight(v["weight"])(b.cls[v["name"]])
                ctx.faults["carry_over"] += 1
        n_ext = 1 + H.draw(5)
        prev = None
        g = None
        for k in range(n_ext):
            try:
                g = b.extract()
            except Exception as e:
                ctx.violate(f"C19/extract-raises/{type(e).__name__}@{exc_site(e)}", f"extraction #{k + 1} of a weighted grammar raised {short_tb(e)}")
                return
            if k:
                ctx.faults["carry_over"] += 1
            w = {b.name_of[t]: v for t, v in g.get_weights().items() if t in b.name_of}
            if not any_weighted:
                # no class of the grammar declares a weight: every production counts the same (raw 1.0, or normalised when a
                # weighted class outside the grammar was passed in considered_subtypes)
                for a in abstracts:
                    vals = [w.get(p) for p in ref.productions(a, reg)]
                    if vals and (any(v is None for v in vals) or max(vals) - min(vals) > 1e-9):
                        ctx.violate("C19/unweighted-grammar-has-unequal-weights", f"no class of the grammar is weighted but {a} -> {vals}")
                        return
            else:
                for a in abstracts:
                    prods = ref.productions(a, reg)
                    if not prods:
                        continue
                    vals = [w.get(p) for p in prods]
                    if any(v is None for v in vals):
                        ctx.violate("C19/production-without-weight", f"extraction #{k + 1}: productions {prods} of {a} have weights {vals}")
                        return
                    if any(v < 0 for v in vals):
                        ctx.violate("C19/negative-weight", f"extraction #{k + 1}: {a} -> {dict(zip(prods, vals))}")
                        return
                    if all(declared[p] == 0.0 for p in prods):
                        # every production of this type is declared with weight zero: there are no ratios to keep and nothing sums
                        # to one; the weights must simply stay zero (and the other rules are judged as usual)
                        if any(v != 0 for v in vals):
                            ctx.violate("C19/all-zero-rule-gained-weight", f"extraction #{k + 1}: {a} -> {dict(zip(prods, vals))} although every production was declared 0")
                            return
                        continue
                    tot = sum(vals)
                    if abs(tot - 1.0) > 1e-9:
                        ctx.violate(f"C19/not-normalised/extraction-{'first' if k == 0 else 'repeated'}",
                                    f"extraction #{k + 1}: weights of {a} -> {dict(zip(prods, vals))} sum to {tot}")
                        return
                    dtot = sum(declared[p] for p in prods)
                    for p, v in zip(prods, vals):
                        if abs(v - declared[p] / dtot) > 1e-9:
                            ctx.violate(f"C19/ratios-not-preserved/extraction-{'first' if k == 0 else 'repeated'}",
                                        f"extraction #{k + 1}: {a} -> {dict(zip(prods, vals))} but the declared weights are {[declared[q] for q in prods]} (considered={spec['considered']})")
                            return
            if prev is not None and (set(w) != set(prev) or any(abs(w[n] - prev[n]) > 1e-9 for n in w)):
                ch = {n: (prev.get(n), w.get(n)) for n in w if prev.get(n) is None or abs(prev[n] - w[n]) > 1e-9}
                ctx.violate("C19/re-extraction-changes-weights", f"extraction #{k + 1} changed weights: {ch}")
                return
            prev = w
        ctx.stat("extractions", n_ext)
        # weight-aware choosers
        if g is None:
            return
        policy = H.weighted([("uniform", 2), ("edge", 4), ("hi", 2), ("lo", 1)])
        rnd = SimRandom(ctx, policy, edge_den=2)
        bad = []

        def monitor(kind, args, result):
            if kind == "choice_weighted":
                choices, weights = args
                ctx.stat("weighted_choices")
                try:
                    i = next(j for j, c in enumerate(choices) if c is result)
                except StopIteration:
                    bad.append(("not-an-option", None))
                    return
                if weights[i] <= 0 and any(x > 0 for x in weights):
                    bad.append(("zero-weight-option", (getattr(result, "__name__", str(result)), list(weights))))
                # independent of the weights the chooser was handed: the production's DECLARED weight
                rn = b.name_of.get(result)
                if rn is not None and declared.get(rn, 1.0) == 0.0 and any(x > 0 for x in weights) and \
                        any(declared.get(b.name_of.get(c), 1.0) > 0 for c in choices if c in b.name_of):
                    bad.append(("declared-zero-weight-production-chosen", (rn, [b.name_of.get(c, str(c)) for c in choices], list(weights))))

        rnd.monitor = monitor
        from geneticengine.representations.tree.initializations import ProgressivelyTerminalDecider
        from geneticengine.representations.tree.treebased import TreeBasedRepresentation
        from geneticengine.representations.stackgggp import StackBasedGGGPRepresentation
        from ..core import SimStepCap
        from ..seams import install_gene_read_cap, reset_gene_read_cap

        install_gene_read_cap()
        from .. import flaky as _flaky
        den = H.pick([0, 2, 3])
        S = ctx.S

        def plan():
            hit = bool(den) and S.draw(den) == den - 1
            if hit:
                ctx.faults["synthesis_exception"] += 1
            return hit

        _flaky.Flaky.plan = plan
        which = H.pick(["progressive", "progressive", "stack"])
        rnd.op_cap = 15000  # bounded liveness: the progressive decider has no depth bound
        for _ in range(1 + H.draw(4)):
            rnd.reset_cap()
            try:
                if which == "progressive":
                    rep = TreeBasedRepresentation(g, ProgressivelyTerminalDecider(rnd, g))
                    prog = rep.create_genotype(rnd)
                    # independent of HOW the decider draws: a production declared with weight zero must not occur in the program
                    # when its abstract type also has a non-recursive production of positive declared weight that cannot fail
                    # (no refined fields) and that the depth heuristic never zeroes: that one is available, with positive
                    # weight, at every decision for the type
                    rec = ref.recursive()
                    import json as _json

                    mentioned = _json.dumps([spec["start"]] + [ft for c in spec["classes"] for _, ft in c["fields"]])
                    for node in ref.nodes(prog):
                        pn = ref.cls_of(node)
                        par = ref.parent(pn) if pn else None
                        if pn is None or par is None or declared.get(pn, 1.0) != 0.0:
                            continue
                        if f'"{pn}"' in mentioned:
                            continue  # named directly as start symbol or field type somewhere: may stand there without any decision
                        # (the decider's depth heuristic gives a non-recursive production the factor max(target - distance, 0):
                        # only one strictly shallower than the target keeps a positive combined weight at every depth)
                        tgt = g.get_max_node_depth()
                        safe = [q for q in ref.productions(par, reg) if q != pn and not ref.is_abstract(q) and declared.get(q, 1.0) > 0 and q not in rec
                                and all(ft[0] in ("int", "bool", "float", "str") for _, ft in ref.cls[q]["fields"])
                                and tgt < 10**6 and g.get_distance_to_terminal(b.cls[q]) < tgt]
                        if safe:
                            bad.append(("declared-zero-weight-production-in-program", (pn, par, safe[:2])))
                            break
                else:
                    rep = StackBasedGGGPRepresentation(g, gene_length=32, failures_limit=20)
                    geno = rep.create_genotype(rnd)
                    reset_gene_read_cap(2000)
                    # the stack mapper chooses symbols by weight from its own gene-backed source: observe through the class
                    from geneticengine.representations import stackgggp

                    lw = stackgggp.ListWrapper(geno.dna)
                    orig = lw.choice_weighted

                    def cw(choices, weights, __orig=orig):
                        r = __orig(choices, weights)
                        monitor("choice_weighted", (choices, weights), r)
                        return r

                    lw.choice_weighted = cw
                    stackgggp.create_tree_using_stacks(g, lw, failures_limit=20)
            except (SimStepCap, RecursionError):
                ctx.stat("foreign_failure:cap")
            except Exception:
                ctx.stat("foreign_failure:create")
            if bad:
                cause, detail = bad[0]
                ctx.violate(f"C19/chooser/{which}/{cause}", f"a weight-aware choice under policy {policy} returned {detail}")
                return
    finally:
        from .. import flaky as _flaky2

        _flaky2.Flaky.plan = None
        b.dispose()
