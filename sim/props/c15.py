"""C15 -- population size is invariant across generations and step compositions.

Generated: step trees of depth <= 3 over all built-in steps, weight vectors including zeros and
shares whose rounding over- or under-shoots, population sizes 2..24, inputs as list /
Population / one-shot iterator (F11), injected initial populations of every length 0..2k with
every built-in initialiser.  Oracle: len(list(step.apply(.., k))) == k whenever |input| >= k;
every initialiser asked for k yields k; in GP runs a recorder counts individuals per
generation == configured size for >= 5 generations.  History matters: sizes compound.
"""
from __future__ import annotations

from ..gpworld import build_step, gen_step, make_intrep, step_kinds
from ..seams import SimRandom

ID = "C15"
LEVEL = "exploration"
RULE = ("one run = one generated step tree (elitism, novelty, tournament, lexicase, mutation, crossover, identity, sequence, parallel, "
        "exclusive parallel with non-negative weights; nesting <= 3) x population size 2..24 x requested size k <= population x "
        "input form (list, Population object, one-shot iterator), or one initialiser configuration, or one GP run observed for >= 5 "
        "generations; non-trivial = a combinator with >= 2 members or an injected population was exercised; distinct = distinct "
        "event-log digests")
COMPONENTS_REAL = ["geneticengine.algorithms.gp.operators.*", "geneticengine.representations.tree.operators (initialisers)",
                   "geneticengine.algorithms.gp.gp", "geneticengine.algorithms.gp.population", "geneticengine.representations.common"]
COMPONENTS_STUB = ["representation (integers) for step-level runs; real tree representation for the tree initialisers", "RandomSource primitives (SimRandom)", "fitness (arithmetic on the genotype)"]
ASSUMPTIONS = ["documented precondition |population| >= k for steps", "the time-driven ParameterlessPopulationInitializer is not an initialiser 'asked for k'"]


def budget(tier):
    if tier == "thorough":
        return {"runs": 200000, "run_timeout": 120, "max_wall": 1500}
    return {"runs": 12000, "run_timeout": 60, "max_wall": 200}


def shape_of(desc):
    """structural token for signatures: outermost combinator kinds on the path to a miscount"""
    ks = step_kinds(desc)
    combs = [k for k in ks if k in ("parallel", "exclusive", "sequence")]
    return "+".join(sorted(set(combs))) or ks[0]


def apply_counted(ctx, step, desc, members, target, form, problem, evaluator, rep, rnd, multi, path="top"):
    from geneticengine.algorithms.gp.population import Population
    from geneticengine.evaluation.tracker import MultiObjectiveProgressTracker, SingleObjectiveProgressTracker

    if form == "population":
        tracker = (MultiObjectiveProgressTracker if multi else SingleObjectiveProgressTracker)(problem, evaluator)
        popn = Population(iter(members), tracker, 1)
    elif form == "iterator":
        popn = (m for m in members)
        ctx.faults["one_shot_input"] += 1
    else:
        popn = list(members)
    return list(step.apply(problem, evaluator, rep, rnd, popn, target, 1))


def leaf_or_simple(desc):
    return desc[0] not in ("sequence", "parallel", "exclusive")


def run(ctx):
    from geneticengine.evaluation.sequential import SequentialEvaluator
    from geneticengine.problems import MultiObjectiveProblem, SingleObjectiveProblem
    from geneticengine.solutions.individual import Individual

    H = ctx.H
    mode = H.weighted([("step", 6), ("init", 2), ("gp", 2)])
    rnd = SimRandom(ctx, H.pick(["uniform", "edge", "native"]))
    rep = make_intrep()
    multi = H.draw(4) == 3
    if multi:
        problem = MultiObjectiveProblem([False, True], lambda p: [float(p.v % 7), float(p.v % 5)])
    else:
        nan_some = H.draw(4) == 0  # a fitness function that is undefined (NaN) for some programs
        problem = SingleObjectiveProblem(lambda p: float("nan") if (nan_some and p.v % 3 != 0) else float(p.v % 13), minimize=bool(H.draw(2)))
    evaluator = SequentialEvaluator()
    ctx.stat("mode:" + mode)
    if mode == "step":
        desc = gen_step(H, max_depth=3, multi=multi, repeat=True)
        if H.draw(6) == 5:
            # EvaluateStep passes its input on: at the end of a sequence it receives exactly k individuals (as a generator)
            desc = ["sequence", [desc, ["evaluate"]]]
        n = 2 + H.draw(23)
        k = H.pick([n, n, max(1, n - 1), 1 + H.draw(n), 2 + H.draw(n - 1)])
        form = H.pick(["list", "population", "iterator"])
        members = [Individual(rep.create_genotype(rnd), rep) for _ in range(n)]
        ctx.sample = {"step": desc, "population": n, "requested": k, "form": form, "multi_objective": multi}
        step = build_step(desc, share=({} if H.draw(2) else None))  # one step object may sit at several positions of the pipeline
        try:
            out = apply_counted(ctx, step, desc, members, k, form, problem, evaluator, rep, rnd, multi)
        except Exception as e:
            from ..world import short_tb

            ctx.violate(f"C15/exception/{shape_of(desc) if not leaf_or_simple(desc) else desc[0]}/{form}/{type(e).__name__}",
                        f"step {desc} on a {form} of {n} individuals asked for {k} raised {short_tb(e)}")
            return
        if not leaf_or_simple(desc):
            ctx.nontrivial = True
        if len(out) != k:
            kind = desc[0] if leaf_or_simple(desc) else shape_of(desc)
            # one-shot inputs have their own cause class
            ctx.violate(f"C15/count/{kind}/{'one-shot-input' if form == 'iterator' else 'list-input'}/{'over' if len(out) > k else 'under'}",
                        f"step {desc} given {n} individuals as a {form} and asked for {k} yielded {len(out)}")
            return
        ctx.stat("steps_counted")
        # history (F13): the SAME step object applied again to another population and another requested size
        if H.draw(2):
            n2 = 2 + H.draw(23)
            k2 = 1 + H.draw(n2)
            members2 = [Individual(rep.create_genotype(rnd), rep) for _ in range(n2)]
            ctx.faults["carry_over"] += 1
            try:
                out2 = apply_counted(ctx, step, desc, members2, k2, "list", problem, evaluator, rep, rnd, multi)
            except Exception as e:
                from ..world import short_tb

                ctx.violate(f"C15/exception/{shape_of(desc) if not leaf_or_simple(desc) else desc[0]}/reused-step-object/{type(e).__name__}",
                            f"step {desc} applied a second time ({n2} individuals, asked for {k2}) raised {short_tb(e)}")
                return
            if len(out2) != k2:
                kind = desc[0] if leaf_or_simple(desc) else shape_of(desc)
                ctx.violate(f"C15/count/{kind}/reused-step-object/{'over' if len(out2) > k2 else 'under'}",
                            f"step {desc}, first asked for {k} of {n}, then applied again to {n2} individuals and asked for {k2}, yielded {len(out2)}")
        return
    if mode == "init":
        run_init(ctx, H, rnd, problem)
        return
    run_gp(ctx, H, rnd, rep, problem, multi)


def run_init(ctx, H, rnd, problem):
    """every built-in initialiser asked for k yields exactly k"""
    from geneticengine.algorithms.gp.operators.initializers import HalfAndHalfInitializer, StandardInitializer
    from geneticengine.representations.common import GenericPopulationInitializer
    from geneticengine.representations.tree.initializations import MaxDepthDecider
    from geneticengine.representations.tree.operators import (FullInitializer, GrowInitializer, InjectInitialPopulationWrapper,
                                                             PositionIndependentGrowInitializer, RampedHalfAndHalfInitializer)
    from geneticengine.representations.tree.treebased import TreeBasedRepresentation
    from geneticengine.solutions.individual import Individual
    from ..spec import Built
    from ..seams import install_set_order

    install_set_order()
    base = [{"name": "A0", "kind": "abc", "parent": None, "weight": None, "fields": []},
            {"name": "C0", "kind": "data", "parent": "A0", "weight": None, "fields": [["f0", ["ann", ["int"], ["IntRange", 0, 9]]]]},
            {"name": "C1", "kind": "data", "parent": "A0", "weight": None, "fields": [["f0", ["cls", "A0"]], ["f1", ["cls", "A0"]]]}]
    shape = H.draw(3)
    if shape == 0:
        spec = {"classes": base, "start": "A0", "considered": ["C0", "C1"]}
    elif shape == 1:
        # concrete start symbol: minimum tree depth 2
        spec = {"classes": base + [{"name": "D0", "kind": "data", "parent": None, "weight": None, "fields": [["f0", ["cls", "A0"]], ["f1", ["bool"]]]}],
                "start": "D0", "considered": ["C0", "C1", "D0"]}
    else:
        # minimum tree depth 3
        spec = {"classes": base + [{"name": "D0", "kind": "data", "parent": None, "weight": None, "fields": [["f0", ["cls", "A0"]]]},
                                   {"name": "D1", "kind": "data", "parent": None, "weight": None, "fields": [["f0", ["cls", "D0"]], ["f1", ["cls", "A0"]]]}],
                "start": "D1", "considered": ["C0", "C1", "D0", "D1"]}
    b = Built(spec)
    try:
        g = b.extract()
        rep = TreeBasedRepresentation(g, MaxDepthDecider(rnd, g, 5))
        k = H.pick([1, 1, 2, 3, H.draw(13)])
        which = H.weighted([("inject", 4), ("full", 1), ("grow", 1), ("pigrow", 1), ("ramped", 1), ("standard", 1), ("generic", 1), ("half", 2)])
        backup = H.pick(["standard", "grow", "full"])

        def mk(name):
            return {"full": lambda: FullInitializer(3), "grow": GrowInitializer, "pigrow": lambda: PositionIndependentGrowInitializer(3),
                    "ramped": lambda: RampedHalfAndHalfInitializer(3), "standard": StandardInitializer, "generic": GenericPopulationInitializer}[name]()

        injected = None
        if which == "inject":
            m = H.pick([max(0, k - 1), H.draw(2 * max(k, 1) + 2)])  # often exactly one individual is missing
            progs = []
            for i in range(m):
                t = rep.create_genotype(rnd)
                progs.append(Individual(t, rep) if H.draw(2) else t)
            injected = m
            init = InjectInitialPopulationWrapper(progs, mk(backup))
            ctx.nontrivial = True
        elif which == "half":
            init = HalfAndHalfInitializer(mk(H.pick(["full", "grow", "standard"])), mk(H.pick(["full", "grow", "standard"])))
            ctx.nontrivial = True
        else:
            init = mk(which)
        ctx.sample = {"initializer": which, "requested": k, "injected": injected, "backup": backup if which == "inject" else None,
                      "grammar_min_depth": 1 + shape}
        try:
            out = list(init.initialize(problem, rep, rnd, k))
        except Exception as e:
            from ..world import short_tb

            ctx.violate(f"C15/initializer-exception/{which}/{type(e).__name__}",
                        f"{which} initialiser asked for {k} (injected {injected}) raised {short_tb(e)}")
            return
        if len(out) != k:
            rel = "" if injected is None else ("/injected-" + ("none" if injected == 0 else "fewer" if injected < k else "enough"))
            ctx.violate(f"C15/initializer-count/{which}{rel}/{'over' if len(out) > k else 'under'}",
                        f"{which} initialiser asked for {k} (injected {injected}) yielded {len(out)}")
        ctx.stat("initialisers_counted")
    finally:
        b.dispose()


def run_gp(ctx, H, rnd, rep, problem, multi):
    from geneticengine.algorithms.gp.gp import GeneticProgramming
    from geneticengine.evaluation.budget import EvaluationBudget, SearchBudget
    from geneticengine.evaluation.sequential import SequentialEvaluator
    from geneticengine.evaluation.tracker import MultiObjectiveProgressTracker, SingleObjectiveProgressTracker

    pop = 2 + H.draw(23)
    desc = gen_step(H, max_depth=3, multi=multi, repeat=True) if H.draw(3) else None
    gens = 5 + H.draw(4)
    counts = {}

    class Rec:
        def register(self, tracker, individual, problem, is_best):
            g = individual.metadata.get("generation")
            counts.setdefault(g, set()).add(id(individual))
            counts.setdefault(("n", g), []).append(1)

    class GenBudget(SearchBudget):
        def __init__(self):
            self.calls = 0

        def is_done(self, tracker):
            self.calls += 1
            return self.calls > gens

    tracker = (MultiObjectiveProgressTracker if multi else SingleObjectiveProgressTracker)(problem, SequentialEvaluator(), recorders=[Rec()])
    ctx.sample = {"gp_population": pop, "step": desc, "generations": gens, "multi_objective": multi}
    try:
        gp = GeneticProgramming(problem=problem, budget=GenBudget(), representation=rep, random=rnd, tracker=tracker,
                                population_size=pop, step=(build_step(desc, share=({} if H.draw(2) else None)) if desc else None))
        gp.search()
    except Exception as e:
        ctx.stat("foreign_failure:" + type(e).__name__)
        return
    ctx.nontrivial = True
    for g in range(gens + 1):
        n = len(counts.get(("n", g), []))
        if n != pop:
            kind = "default-step" if desc is None else shape_of(desc)
            ctx.violate(f"C15/generation-size/{kind}/{'initial' if g == 0 else 'later'}/{'over' if n > pop else 'under'}",
                        f"generation {g} of a GP run with population_size={pop} and step {desc} contained {n} individuals")
            break
    ctx.stat("gp_runs")
