"""C04 -- depth-bounded creation reaches exactly the grammar's bounded language.

What this family of technique can give (DESIGN 1.1, 5/C04): the property quantifies over ALL
decision sequences; enumerating them is model checking, which is not done here.  One run fixes
a finite-choice grammar, a depth and a decider and varies only stream R -- the random decision
sequence is literally the schedule.  Monitors at the random seam log, for every decision, the
SUPPORT the real code offers.  Oracles: (a) soundness -- every sampled program lies in the
reference language L(G,d) (grow, pi-grow) / Full(G,d) (full); (b) local completeness -- the
multiset of logged (choice, support) pairs equals the multiset the reference derives from the
finished program: no feasible option withheld, no infeasible one offered; (c) reported, not
judged: programs reached / |L|, decision contexts reached.
"""
from __future__ import annotations

from collections import Counter

from ..core import Chooser
from ..ref import Ref, canon, INF
from ..seams import SimRandom, install_set_order, set_order_seed
from ..spec import Built, gen_refinement, gen_list_refinement
from ..world import short_tb, exc_site, lib_error_types

ID = "C04"
LEVEL = "exploration"
RULE = ("one run = one finite-choice grammar (<= 3 abstract types, productions with <= 3 fields, small integer / name / list-size "
        "refinements, bool, unions; no unrefined int/float, every list size-refined and non-empty) x depth d in [min, min+3] x decider "
        "(grow, full, pi-grow) and 40 (quick) / 200 (thorough) creations that differ only in the random decision sequence; each "
        "creation is judged for membership in the reference language and for equality of the logged decision supports with the "
        "reference supports; non-trivial = the run saw >= 2 distinct programs and >= 1 abstract or union decision; distinct = "
        "distinct programs reached over all runs (also reported against the enumerated |L|)")
STATES_MEASURE = "distinct (grammar, depth, decider, program) tuples reached"
COMPONENTS_REAL = ["geneticengine.representations.tree.initializations (MaxDepthDecider, FullDecider, PositionIndependentGrowDecider, create_node)",
                   "geneticengine.grammar.grammar (distance analysis, recursive_prods)", "geneticengine.grammar.metahandlers.*", "geneticengine.random.sources (choice)"]
COMPONENTS_STUB = ["RandomSource.randint/random_float (SimRandom with a support monitor)"]
ASSUMPTIONS = ["sampled, not exhaustive: global completeness follows from local support equality only for the decision contexts that were sampled (count reported)",
               "back-tracking and every fault kind are off, so one logged decision corresponds to one position",
               "union alternatives are pairwise distinguishable by the Python type of the value"]


def budget(tier):
    if tier == "thorough":
        return {"runs": 20000, "run_timeout": 240, "max_wall": 1500}
    return {"runs": 1600, "run_timeout": 120, "max_wall": 200}


# ---------------------------------------------------------------- finite-choice grammar family

def gen_finite_type(H: Chooser, refs, level=0):
    opts = [("bool", 2), ("int", 4), ("str", 2), ("cls", 6 if refs else 0)]
    if level == 0:
        opts += [("annlist", 2), ("union", 2), ("tuple", 1)]
    k = H.weighted([o for o in opts if o[1]])
    if k == "bool":
        return ["bool"]
    if k == "int":
        r = gen_refinement(H, "int", {}, finite=True)
        if H.draw(4) == 0:
            r = ["Flaky", r]  # never fails in a judged creation; fails on a seeded plan in the unjudged ones in between (history)
        return ["ann", ["int"], r]
    if k == "str":
        n = 1 + H.draw(3)
        return ["ann", ["str"], ["VarRange", [["x", "y", "z", "ab"][i] for i in range(n)]]]
    if k == "cls":
        return ["cls", H.pick(refs)]
    if k == "annlist":
        lo = 1 + H.draw(2)
        if refs and H.draw(4) == 0:
            inner = ["union", [["cls", H.pick(refs)], ["bool"]]]  # recursion may run only through a union nested in a list
        else:
            inner = ["cls", H.pick(refs)] if (refs and H.draw(3)) else ["ann", ["int"], ["IntRange", 0, 1]]
        return ["ann", ["list", inner], [H.pick(["ListSizeBetween", "LSBWLO"]), lo, lo + H.draw(2)]]
    if k == "tuple":
        return ["tuple", [gen_finite_type(H, refs, 1) for _ in range(1 + H.draw(2))]]
    # union: at most one class alternative plus base alternatives of different Python types
    alts = []
    if refs:
        alts.append(["cls", H.pick(refs)])
    kinds = ["bool", "int", "str"]
    for kk in kinds[: 1 + H.draw(2)]:
        alts.append(["bool"] if kk == "bool" else ["ann", ["int"], ["IntRange", 0, 2]] if kk == "int" else ["ann", ["str"], ["VarRange", ["u", "v"]]])
    if len(alts) < 2:
        alts.append(["bool"])
    return ["union", alts]


def gen_finite_spec(H: Chooser, all_recursive=False):
    nA = 1 + H.draw(3)
    abstracts = [f"A{i}" for i in range(nA)]
    classes = []
    for i, a in enumerate(abstracts):
        parent = abstracts[H.draw(i)] if (i > 0 and H.draw(4) == 3) else None
        classes.append({"name": a, "kind": "deco" if parent else "abc", "parent": parent, "weight": None, "fields": []})
    n = 0
    for a in abstracts:
        # a terminating production with base fields only
        nf = H.draw(3)
        classes.append({"name": f"C{n}", "kind": "data", "parent": a, "weight": None,
                        "fields": [[f"f{k}", gen_finite_type(H, [], 1)] for k in range(nf)]})
        n += 1
        if all_recursive:
            classes.append({"name": f"C{n}", "kind": "data", "parent": a, "weight": None,
                            "fields": [["f0", ["cls", a]]] + [[f"f{k + 1}", gen_finite_type(H, abstracts, 1)] for k in range(H.draw(2))]})
            n += 1
    for _ in range(H.draw(4)):
        a = H.pick(abstracts)
        nf = 1 + H.draw(3)
        classes.append({"name": f"C{n}", "kind": H.pick(["data", "data", "plain"]), "parent": a, "weight": None,
                        "fields": [[f"f{k}", gen_finite_type(H, abstracts)] for k in range(nf)]})
        n += 1
    if H.draw(3) == 0:
        # a production whose depth runs through a field typed with a plain CONCRETE class (no decision at that level):
        # Box(inner: Holder), Holder(e: A)
        classes.append({"name": "D0", "kind": "data", "parent": None, "weight": None,
                        "fields": [["f0", ["cls", H.pick(abstracts)]]] + ([["f1", ["bool"]]] if H.draw(2) else [])})
        classes.append({"name": f"C{n}", "kind": "data", "parent": H.pick(abstracts), "weight": None,
                        "fields": [["f0", ["cls", "D0"]]] + ([["f1", gen_finite_type(H, abstracts, 1)]] if H.draw(2) else [])})
        n += 1
    considered = [c["name"] for c in classes if c["kind"] in ("data", "plain")]
    return {"classes": classes, "start": "A0", "considered": considered, "future_annotations": False, "expansion_depthing": False}


# ---------------------------------------------------------------- reference language

class Lang:
    def __init__(self, ref: Ref, cap=5000):
        self.ref = ref
        self.cap = cap
        self.memo = {}
        self.reg = ref.registered()
        self.minds = ref.minds()
        self.recursive = ref.recursive()

    def count(self, t, m):
        """|{values of type t with depth <= m}|, capped"""
        key = (repr(t), m)
        if key in self.memo:
            return self.memo[key]
        self.memo[key] = 0  # cycle guard (cannot happen: m strictly decreases through classes)
        k = t[0]
        if k == "bool":
            r = 2
        elif k == "cls":
            n = t[1]
            if self.ref.is_abstract(n):
                r = sum(self.count(["cls", p], m) for p in self.ref.productions(n, self.reg))
            elif m < 1:
                r = 0
            else:
                r = 1
                for _, ft in self.ref.cls[n]["fields"]:
                    r *= self.count(ft, m - 1)
                    if r == 0:
                        break
        elif k == "ann":
            rr = t[2]
            if rr[0] == "Flaky":
                rr = rr[1]
            if rr[0] == "IntRange":
                r = rr[2] - rr[1] + 1
            elif rr[0] in ("IntList", "VarRange", "FloatList"):
                r = len(set(rr[1]))
            elif rr[0] in ("ListSizeBetween", "LSBWLO"):
                c = self.count(t[1][1], m)
                r = sum(c ** n for n in range(rr[1], rr[2] + 1))
            else:
                r = self.cap + 1
        elif k == "tuple":
            r = 1
            for x in t[1]:
                r *= self.count(x, m)
        elif k == "union":
            r = sum(self.count(x, m) for x in t[1])
        else:
            r = self.cap + 1
        r = min(r, self.cap + 1)
        self.memo[key] = r
        return r

    # ---- Full(G, d)
    def full_nonempty(self, t, m):
        """can a value of type t be built all of whose grammar-node branches end exactly at level m?
        Returns 'any' for types without grammar nodes."""
        key = ("F", repr(t), m)
        if key in self.memo:
            return self.memo[key]
        self.memo[key] = False
        k = t[0]
        if k in ("bool", "int", "float", "str"):
            r = "any"
        elif k == "ann":
            r = self.full_nonempty(t[1], m) if t[1][0] not in ("int", "str", "float", "bool") else "any"
        elif k == "list":
            r = self.full_nonempty(t[1], m)
        elif k == "tuple":
            rs = [self.full_nonempty(x, m) for x in t[1]]
            r = False if any(x is False for x in rs) else ("any" if all(x == "any" for x in rs) else True)
        elif k == "union":
            rs = [self.full_nonempty(x, m) for x in t[1]]
            r = True if any(x is True for x in rs) else ("any" if any(x == "any" for x in rs) else False)
        elif k == "cls":
            n = t[1]
            if self.ref.is_abstract(n):
                r = any(self.full_nonempty(["cls", p], m) is True for p in self.ref.productions(n, self.reg))
            elif m < 1:
                r = False
            else:
                rs = [self.full_nonempty(ft, m - 1) for _, ft in self.ref.cls[n]["fields"]]
                if any(x is False for x in rs):
                    r = False
                elif all(x == "any" for x in rs):
                    r = (m == 1)  # a node without grammar children is a leaf: its branch ends here
                else:
                    r = True
        else:
            r = False
        self.memo[key] = r
        return r


def leaf_depths(ref, v, k=0, out=None):
    """depths (1-based) of the nodes without grammar children"""
    out = [] if out is None else out
    if isinstance(v, (list, tuple)):
        for e in v:
            leaf_depths(ref, e, k, out)
        return out
    n = ref.cls_of(v)
    if n is None:
        return out
    kids = []
    for fn, _ in ref.cls[n]["fields"]:
        kids.extend(ref.nodes(getattr(v, fn)))
    if not kids:
        out.append(k + 1)
    else:
        for fn, _ in ref.cls[n]["fields"]:
            leaf_depths(ref, getattr(v, fn), k + 1, out)
    return out


# ---------------------------------------------------------------- reference supports from the finished program

def key_of(x, b):
    if isinstance(x, type):
        return "T:" + b.name_of.get(x, x.__name__)
    t = type(x)
    if t in (int, str, bool, float):
        return f"V:{t.__name__}:{x!r}"
    from ..seams import type_key

    return "T:" + type_key(x)


def spec_type_key(t, b):
    """key the library's type object for spec type t would get"""
    k = t[0]
    if k == "cls":
        return "T:" + t[1]
    if k in ("bool", "int", "str", "float"):
        return "T:" + k
    return None


def walk(ref: Ref, lang: Lang, b, v, t, k, d, mode, out, hints):
    """append the reference (kind, support, chosen) decisions for value v of declared type t whose
    enclosing node sits at depth k (= number of grammar-node ancestors)"""
    kind = t[0]
    rem = d - k
    if kind == "cls":
        n = ref.cls_of(v)
        cur = t[1]
        # descend the abstract layers down to the concrete class
        while ref.is_abstract(cur):
            prods = ref.productions(cur, lang.reg)
            nxt = next(p for p in prods if ref.is_below(n, p))
            if mode == "grow":
                sup = [p for p in prods if lang.minds[p] <= rem]
            elif mode == "full":
                sup = [p for p in prods if lang.full_nonempty(["cls", p], rem) is True]
            else:
                sup = None  # pi-grow: the property only asks it to stay inside the language
            out.append(("choice", None if sup is None else tuple(sorted("T:" + p for p in sup)), "T:" + nxt, ("abstract", cur, rem)))
            cur = nxt
        for fn, ft in ref.cls[n]["fields"]:
            walk(ref, lang, b, getattr(v, fn), ft, k + 1, d, mode, out, hints)
        return
    if kind == "bool":
        out.append(("choice", ("V:bool:False", "V:bool:True"), f"V:bool:{v!r}", ("bool",)))
        return
    if kind == "ann":
        r = t[2]
        if r[0] == "Flaky":
            r = r[1]
        if r[0] == "IntRange":
            out.append(("randint", (r[1], r[2]), v, ("IntRange",)))
        elif r[0] in ("IntList", "VarRange", "FloatList"):
            out.append(("choice", tuple(sorted(f"V:{type(x).__name__}:{x!r}" for x in r[1])), f"V:{type(v).__name__}:{v!r}", (r[0],)))
        elif r[0] in ("ListSizeBetween", "LSBWLO"):
            out.append(("randint", (r[1], r[2]), len(v), ("list-size",)))
            for e in v:
                walk(ref, lang, b, e, t[1][1], k, d, mode, out, hints)
        return
    if kind == "tuple":
        for e, et in zip(v, t[1]):
            walk(ref, lang, b, e, et, k, d, mode, out, hints)
        return
    if kind == "union":
        alt = next(a for a in t[1] if ref.conforms(v, a) is None)
        if mode == "grow":
            sup = tuple(sorted(union_key(a) for a in t[1] if ref.mind_type(a) <= rem))
        else:
            sup = None
        out.append(("choice", sup, union_key(alt), ("union", rem)))
        walk(ref, lang, b, v, alt, k, d, mode, out, hints)
        return
    raise ValueError(kind)


def union_key(a):
    if a[0] == "cls":
        return "T:" + a[1]
    if a[0] == "ann":
        return "U:" + a[1][0]
    return "T:" + a[0]


def lib_union_key(x, b):
    if isinstance(x, type):
        return "T:" + b.name_of.get(x, x.__name__)
    import typing

    if hasattr(x, "__metadata__"):
        return "U:" + typing.get_args(x)[0].__name__
    return "?"


def compare_supports(events, want, lang, mode):
    """pair the decisions logged at the random seam with the reference decisions of the finished program; None if they agree,
    else (cause class, detail).  Cause classes are structural: option-withheld/<class of the option>, infeasible-option-offered,
    draw-range, decision-count."""
    ev = [(e[0], (e[1] if e[0] == "choice" else tuple(e[1])), e[2], (e[3] if len(e) > 3 else None)) for e in events]
    wa = [(k, (None if s is None else (s if k == "choice" else tuple(s))), v, c) for k, s, v, c in want]
    if mode == "full":
        # only abstract decisions carry a judged support in full mode; unions are judged by membership
        pass
    left_ev = list(ev)
    left_wa = []
    for w_ in wa:
        k, s_, v, c = w_
        hit = None
        for i, e in enumerate(left_ev):
            if e[0] == k and e[2] == v and (s_ is None or e[1] == s_):
                if c and c[0] == "abstract" and e[3] is not None and e[3] != (c[1], lang.d - c[2]):
                    continue  # same option and support, but logged for another position
                if c and c[0] == "union" and e[3] is not None and e[3][0] is not None:
                    continue  # a decision logged for a class symbol is not a union decision
                hit = i
                break
        if hit is None:
            left_wa.append(w_)
        else:
            left_ev.pop(hit)
    if not left_wa and not left_ev:
        return None
    for w_ in left_wa:
        k, s_, v, c = w_
        cand = [e for e in left_ev if e[0] == k and e[2] == v]
        if not cand:
            continue
        # prefer the logged decision taken for the same symbol at the same level (pairing hint from the decider call)
        if c and c[0] == "union":
            cand = [e for e in cand if e[3] is None or e[3][0] is None] or cand
        exact = [e for e in cand if c and c[0] == "abstract" and e[3] == (c[1], lang.d - c[2])]
        e = (exact or cand)[0]
        if k == "randint":
            return ("draw-range", f"{c}: library drew from {e[1]}, reference range {s_}")
        withheld = sorted(set(s_) - set(e[1]))
        offered = sorted(set(e[1]) - set(s_))
        if offered:
            return ("infeasible-option-offered", f"{c}: offered {offered} beyond the reference support {list(s_)}")
        if withheld:
            p = withheld[0][2:]
            if c and c[0] == "abstract":
                rem = c[2]
                rec = p in lang.recursive
                md = lang.minds.get(p)
                cls = ("recursive" if rec else "non-recursive") + ("-exact-fit" if md == rem else ("-shallower" if md is not None and md < rem else "-deeper"))
            else:
                cls = c[0] if c else "other"
            return (f"option-withheld/{cls}", f"{c}: reference support {list(s_)}, library offered {list(e[1])}")
    return ("decision-count", f"unmatched reference decisions {[(w_[0], w_[2], w_[3]) for w_ in left_wa[:2]]}, unmatched logged decisions {left_ev[:2]}")


def hash_of(c):
    import hashlib

    return hashlib.sha256(repr(c).encode()).hexdigest()[:12]


def run(ctx):
    from geneticengine.representations.tree import initializations as I
    from geneticengine.representations.tree.treebased import TreeBasedRepresentation

    from ..flaky import Flaky

    H = ctx.H
    Flaky.plan = None
    has_history = H.draw(2) == 1
    install_set_order()
    set_order_seed(ctx.S.draw(2**16))
    mode = H.weighted([("grow", 5), ("full", 3), ("pigrow", 2)])
    spec = gen_finite_spec(H, all_recursive=(mode == "full"))
    b = Built(spec)
    ref = Ref(spec, b)
    lib_errors = lib_error_types()
    try:
        try:
            g = b.extract()
        except Exception as e:
            ctx.stat("foreign_failure:extract")
            return
        rm = ref.mind_start()
        if rm >= INF:
            ctx.stat("skipped:underivable")
            return
        d = rm + H.draw(4)
        lang = Lang(ref)
        lang.d = d
        size = lang.count(["cls", spec["start"]], d)
        while size > lang.cap and d > rm:
            d -= 1
            lang.d = d
            size = lang.count(["cls", spec["start"]], d)
        if size > lang.cap:
            ctx.stat("skipped:language-too-large")
            return
        ctx.sample = {"grammar_source": b.source.split("from sim.flaky import Flaky\n", 1)[-1].strip(), "decider": mode, "max_depth": d,
                      "reference_min_depth": rm, "language_size": size}
        if mode == "full" and lang.full_nonempty(["cls", spec["start"]], d) is not True:
            ctx.stat("skipped:empty-full-language")
            return
        n_create = 40 if ctx.tier == "quick" else 200
        seen = set()
        contexts = set()
        decisions = 0
        # F13 (history): afterwards a SECOND grammar is extracted from the same classes with one production left out, and
        # creation continues on it in the same process (deciders / grammars must not carry anything over)
        second = None
        if mode == "grow" and H.draw(3) == 2:
            import copy
            from geneticengine.grammar.grammar import extract_grammar

            spec2 = copy.deepcopy(spec)
            cands = [n for n in spec2["considered"] if ref.parent(n) is not None]
            if len(cands) >= 2:
                drop = H.pick(cands)
                spec2["considered"] = [n for n in spec2["considered"] if n != drop]
                ref2 = Ref(spec2, b)
                if drop not in ref2.registered() and ref2.mind_start() < INF:
                    try:
                        g2 = extract_grammar([b.cls[n] for n in spec2["considered"]], b.cls[spec2["start"]])
                        d2 = max(d, ref2.mind_start())
                        lang2 = Lang(ref2)
                        lang2.d = d2
                        if lang2.count(["cls", spec2["start"]], d2) <= lang2.cap:
                            second = (spec2, ref2, g2, lang2, d2)
                            ctx.faults["carry_over"] += 1
                            ctx.stat("second_grammar_phases")
                    except Exception:
                        second = None
        for it in range(n_create + (n_create // 2 if second else 0)):
            if it == n_create:
                spec, ref, g, lang, d = second
                rm = ref.mind_start()
            policy = "uniform" if it % 4 else H.pick(["edge", "lo", "hi"])
            rnd = SimRandom(ctx, policy, log=False)
            events = []
            depth_guard = [0]
            pending = [None]

            def monitor(kind, args, result):
                if kind == "choice":
                    depth_guard[0] = 1  # the randint that follows belongs to this choice
                    first = args[0] if args else None
                    if isinstance(first, (type,)) or hasattr(first, "__metadata__") or hasattr(first, "__origin__"):
                        events.append(("choice", tuple(sorted(lib_union_key(x, b) for x in args)), lib_union_key(result, b), pending[0]))
                        pending[0] = None
                    else:
                        events.append(("choice", tuple(sorted(key_of(x, b) for x in args)), key_of(result, b)))
                elif kind == "randint":
                    events.append(("randint", args, result))

            # choice() is implemented with randint(): drop the randint event that each choice produces
            def monitor2(kind, args, result):
                if kind == "choice":
                    # the preceding randint event is this choice's index draw
                    if events and events[-1][0] == "randint" and events[-1][1] == (0, len(args) - 1):
                        events.pop()
                monitor(kind, args, result)

            rnd.monitor = monitor2
            if mode == "grow":
                dec = I.MaxDepthDecider(rnd, g, d)
            elif mode == "full":
                dec = I.FullDecider(rnd, g, d + 1)  # what FullInitializer(d) constructs
            else:
                dec = I.PositionIndependentGrowDecider(rnd, g, d)
            # pairing hint only (never part of the verdict): which symbol, at which library depth, the next choice belongs to
            orig_choose = dec.choose_production_alternatives

            def hinted(ty, alternatives, cx, __orig=orig_choose):
                pending[0] = (b.name_of.get(ty), cx.depth)
                return __orig(ty, alternatives, cx)

            dec.choose_production_alternatives = hinted
            rep = TreeBasedRepresentation(g, dec)
            # F13 (history), unjudged: what other users of the same grammar / representation object do in between --
            # (1) a creation with an explicit per-call decider (every initializer passes one), (2) a creation during which
            # refined fields fail on a seeded plan, so that create_node backtracks over the grammar's production lists
            disturb = H.draw(8) if has_history else 0
            if disturb in (1, 2):
                rnd0 = SimRandom(ctx, "uniform", log=False)
                ctx.faults["carry_over"] += 1
                try:
                    if disturb == 1:
                        ctx.stat("history:per-call-decider")
                        rep.create_genotype(rnd0, decider=I.MaxDepthDecider(rnd0, g, d + 2 + H.draw(2)))
                    else:
                        ctx.stat("history:backtracking-creation")
                        Flaky.plan = lambda: ctx.S.draw(2) == 1
                        ctx.faults["synthesis_exception"] += 1
                        TreeBasedRepresentation(g, I.MaxDepthDecider(rnd0, g, d + H.draw(2))).create_genotype(rnd0)
                except Exception:
                    pass  # unjudged
                finally:
                    Flaky.plan = None
            try:
                p = rep.create_genotype(rnd)
            except lib_errors as e:
                ctx.violate(f"C04/creation-fails/{mode}/{type(e).__name__}", f"{mode} creation at depth {d} (reference minimum {rm}) raised {short_tb(e)}")
                return
            except Exception as e:
                ctx.stat("foreign_failure:" + type(e).__name__)
                return
            # (a) soundness
            c = ref.conforms(p, ["cls", spec["start"]])
            bad = c or (ref.check_refinements(p, ["cls", spec["start"]]) or [None])[0]
            if bad:
                ctx.violate(f"C04/outside-language/{mode}/{bad[0]}", f"{mode} creation produced a program outside the language: {bad}")
                return
            dp = ref.depth(p)
            limit = d if mode != "full" else d
            if dp > (d if mode != "full" else d + 1):
                ctx.violate(f"C04/outside-language/{mode}/too-deep", f"{mode} creation with maximum depth {d} produced depth {dp}")
                return
            if mode == "full":
                lds = set(leaf_depths(ref, p))
                if len(lds) != 1:
                    ctx.violate("C04/full/branches-end-at-different-depths", f"full creation (d={d}) produced leaf depths {sorted(lds)}")
                    return
                ctx.stat(f"full_leaf_depth_minus_d:{lds.pop() - d}")
            cp = canon(p, ref)
            seen.add(cp)
            ctx.log("program", mode, d, hash_of(cp))
            # (b) local completeness: logged supports == reference supports
            want = []
            walk(ref, lang, b, p, ["cls", spec["start"]], 0, d, mode, want, None)
            decisions += len(want)
            for w_ in want:
                contexts.add(w_[3])
            if mode in ("grow", "full"):
                cause = compare_supports(events, want, lang, mode)
                if cause:
                    kind, detail = cause
                    ctx.violate(f"C04/support/{mode}/{kind}", f"decisions offered by the library differ from the reference at depth limit {d}: {detail}")
                    return
        ctx.stat("creations", n_create)
        ctx.stat("decisions", decisions)
        ctx.stat("programs_reached", len(seen))
        ctx.stat("language_size_sum", size)
        ctx.stat("decision_contexts", len(contexts))
        if len(seen) >= 2 and any(c[0] in ("abstract", "union") for c in contexts):
            ctx.nontrivial = True
        ctx.shape = None
        ctx.sample["programs_reached"] = len(seen)
    finally:
        b.dispose()
