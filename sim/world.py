"""The synthesis world shared by C01 C02 C03 C06 C07 C09 C10 C11: a generated grammar, one
of the five representations with a decider, a simulated shared random source, a pool of
genotypes and seeded operation sequences over create / map / mutate / crossover.
"""
from __future__ import annotations

import sys
import traceback
import types as _types

from .core import SimStepCap
from .ref import Ref, canon, show
from .seams import SimRandom, install_set_order, set_order_seed, install_gene_read_cap, reset_gene_read_cap
from .spec import Built, gen_spec, features
from . import flaky

REPS = ("tree", "ge", "sge", "dsge", "stack")
DECIDERS = ("grow", "full", "pigrow", "progressive")


def lib_error_types():
    from geneticengine.exceptions import GeneticEngineError
    from geneticengine.grammar.grammar import InvalidGrammarException
    from geneticengine.grammar.metahandlers.base import SynthesisException

    return (GeneticEngineError, SynthesisException, InvalidGrammarException)


def exc_site(e: BaseException) -> str:
    """innermost frame inside geneticengine/ : 'module.function'"""
    tb = e.__traceback__
    site = "outside"
    while tb is not None:
        fn = tb.tb_frame.f_code.co_filename
        if "/geneticengine/" in fn or "/geml/" in fn:
            mod = fn.rsplit("/", 1)[-1].removesuffix(".py")
            if mod == "__init__":
                mod = fn.rsplit("/", 2)[-2]
            site = f"{mod}.{tb.tb_frame.f_code.co_name}"
        tb = tb.tb_next
    return site


def short_tb(e, n=4):
    fr = traceback.extract_tb(e.__traceback__)
    fr = [f for f in fr if "/geneticengine/" in f.filename or "/geml/" in f.filename][-n:]
    return f"{type(e).__name__}: {e} | " + " <- ".join(f"{f.filename.rsplit('/', 1)[-1]}:{f.lineno} {f.name}: {(f.line or '').strip()[:80]}" for f in reversed(fr))


class OpResult:
    __slots__ = ("kind", "ok", "error", "foreign", "new", "args", "phenotype", "draws", "tb")

    def __init__(self, kind, args=()):
        self.kind = kind
        self.args = args
        self.ok = False
        self.error = None
        self.foreign = None  # signature fragment 'ExcType@site' for a non-library exception
        self.new = []  # indices of genotypes added to the pool
        self.phenotype = None
        self.draws = 0
        self.tb = ""


class SynthWorld:
    @staticmethod
    def draw_config(ctx, feat, reps=REPS, deciders=DECIDERS, policies=None, delta=(0, 0, 0, 1, 1, 2, 3, 4),
                    gene_lengths=(1, 2, 3, 8, 32, 64, 256), order_seed=None):
        """every world-level decision, drawn once (so that a world can be re-created identically)"""
        H = ctx.H
        cfg = {}
        cfg["order_seed"] = ctx.S.draw(2**16) if order_seed is None else order_seed
        cfg["rep_kind"] = H.pick(list(reps))
        cfg["decider_kind"] = H.pick(list(deciders))
        cfg["delta"] = H.pick(list(delta))
        cfg["gene_length"] = H.pick(list(gene_lengths))
        cfg["failures_limit"] = H.pick([1, 5, 20, 100])
        cfg["policy"] = H.weighted(policies or [("uniform", 4), ("edge", 3), ("native", 2), ("lo", 1), ("hi", 1)])
        cfg["flaky_den"] = H.pick([0, 2, 5]) if feat.get("flaky") else 0
        return cfg

    def __init__(self, ctx, feat=None, reps=REPS, deciders=DECIDERS, policies=None, delta=(0, 0, 0, 1, 1, 2, 3, 4),
                 gene_lengths=(1, 2, 3, 8, 32, 64, 256), spec=None, order_seed=None, shared_random=None, config=None,
                 rchooser=None, built=None):
        install_set_order()
        install_gene_read_cap()
        self.ctx = ctx
        self.gene_read_cap = 4000
        H = ctx.H
        self.feat = feat or features()
        self.spec = spec if spec is not None else gen_spec(H, self.feat)
        if config is None:
            config = self.draw_config(ctx, self.feat, reps, deciders, policies, delta, gene_lengths, order_seed)
        self.config = config
        self.order_seed = config["order_seed"]
        if self.order_seed:
            ctx.faults["set_order"] += 1
        set_order_seed(self.order_seed)
        self.built = built if built is not None else Built(self.spec)  # built: real shipped classes (corpus stratum)
        self.ref = Ref(self.spec, self.built)
        self.rep_kind = config["rep_kind"]
        self.decider_kind = config["decider_kind"]
        self.delta = config["delta"]
        self.gene_length = config["gene_length"]
        self.failures_limit = config["failures_limit"]
        self.policy = config["policy"]
        self.flaky_den = config["flaky_den"]
        self.flaky_fail_at = None  # deterministic single fault: index of the Flaky.generate call that fails
        self.flaky_calls = 0
        self.random = shared_random or SimRandom(ctx, self.policy, chooser=rchooser)
        if getattr(self.random, "op_cap", 0) is None:
            self.random.op_cap = 25000  # draws per operation: bounds the size of generated programs
        self.grammar = None
        self.rep = None
        self.decider = None
        self.pool = []  # genotypes
        self.pheno = {}  # pool index -> first phenotype
        self.origin = []  # how each genotype came to be
        self.construct_error = None
        self.lib_errors = lib_error_types()
        self.max_depth = None
        ctx.log("world", self.rep_kind, self.decider_kind, "delta", self.delta, "gl", self.gene_length, self.policy, "order", self.order_seed)

    # ------------------------------------------------------------ construction
    def describe(self):
        return {"representation": self.rep_kind, "decider": self.decider_kind, "max_depth": self.max_depth,
                "delta": self.delta, "gene_length": self.gene_length, "policy": self.policy,
                "set_order_seed": self.order_seed, "grammar_source": self.built.source.split("from sim.flaky import Flaky\n", 1)[-1].strip()}

    def install_flaky(self):
        S = self.ctx.S
        den = self.flaky_den

        def plan():
            idx = self.flaky_calls
            self.flaky_calls += 1
            if self.flaky_fail_at is not None:
                hit = idx == self.flaky_fail_at
            elif den:
                hit = S.draw(den) == den - 1
            else:
                hit = False
            if hit:
                self.ctx.faults["synthesis_exception"] += 1
            return hit

        flaky.Flaky.plan = plan

    def guarded(self, res: OpResult, fn):
        """run fn(); classify what escapes"""
        d0 = self.random.draws if hasattr(self.random, "draws") else 0
        reset_gene_read_cap(self.gene_read_cap)
        if hasattr(self.random, "reset_cap"):
            self.random.reset_cap()
        try:
            out = fn()
            res.ok = True
            return out
        except self.lib_errors as e:
            res.error = type(e).__name__
            self.ctx.stat("lib_error:" + res.kind)
        except SimStepCap:
            res.error = "step-cap"
            self.ctx.stat("step_cap:" + res.kind)
            self.ctx.stat(f"step_cap_by_config:{res.kind}:{self.rep_kind}:{self.decider_kind if self.rep_kind in ('tree', 'ge', 'sge') else '-'}")
        except KeyboardInterrupt:
            raise
        except RecursionError as e:
            res.error = "RecursionError"
            res.foreign = "RecursionError@deep-recursion"
            res.tb = "RecursionError"
        except Exception as e:
            res.error = type(e).__name__
            res.foreign = f"{type(e).__name__}@{exc_site(e)}"
            res.tb = short_tb(e)
        finally:
            res.draws = (self.random.draws if hasattr(self.random, "draws") else 0) - d0
        return None

    def extract(self):
        res = OpResult("extract")
        self.grammar = self.guarded(res, self.built.extract)
        if self.grammar is None:
            self.construct_error = res
        return res

    def lib_min_depth(self):
        try:
            return self.grammar.get_min_tree_depth()
        except Exception:
            return None

    def make_decider(self, kind, max_depth, random=None):
        from geneticengine.representations.tree import initializations as I

        random = random or self.random
        if kind == "grow":
            return I.MaxDepthDecider(random, self.grammar, max_depth)
        if kind == "full":
            return I.FullDecider(random, self.grammar, max_depth)
        if kind == "pigrow":
            return I.PositionIndependentGrowDecider(random, self.grammar, max_depth)
        if kind == "progressive":
            return I.ProgressivelyTerminalDecider(random, self.grammar)
        raise ValueError(kind)

    def fresh_rep(self):
        """another representation object (with its own decider) of the same configuration; the world's own one stays in place"""
        saved = (self.rep, self.decider, self.construct_error, self.gene_read_cap)
        try:
            r = self.construct(max_depth=self.max_depth)
            return self.rep if r.ok else None
        finally:
            self.rep, self.decider, self.construct_error, self.gene_read_cap = saved

    def construct(self, max_depth=None):
        """build decider + representation; returns OpResult"""
        res = OpResult("construct")
        lm = self.lib_min_depth()
        if max_depth is None:
            base = lm if (lm is not None and lm < 10**6) else 3
            max_depth = max(base, self.ref.mind_start() if self.ref.mind_start() < 10**6 else 0) + self.delta
        self.max_depth = max_depth

        def build():
            from geneticengine.representations.tree.treebased import TreeBasedRepresentation
            from geneticengine.representations.grammatical_evolution.ge import GrammaticalEvolutionRepresentation
            from geneticengine.representations.grammatical_evolution.structured_ge import StructuredGrammaticalEvolutionRepresentation
            from geneticengine.representations.grammatical_evolution.dynamic_structured_ge import DynamicStructuredGrammaticalEvolutionRepresentation
            from geneticengine.representations.stackgggp import StackBasedGGGPRepresentation

            k = self.rep_kind
            if k in ("tree", "ge", "sge"):
                self.decider = self.make_decider(self.decider_kind, max_depth)
            if k == "tree":
                return TreeBasedRepresentation(self.grammar, self.decider)
            if k == "ge":
                return GrammaticalEvolutionRepresentation(self.grammar, self.decider, gene_length=self.gene_length)
            if k == "sge":
                return StructuredGrammaticalEvolutionRepresentation(self.grammar, self.decider, gene_length=self.gene_length)
            if k == "dsge":
                return DynamicStructuredGrammaticalEvolutionRepresentation(self.grammar, max_depth)
            if k == "stack":
                # the stack mapping is bounded by failures_limit passes over the genome (<= 3 gene reads per decision): a
                # mapping that reads more genes than that does not return (bounded liveness, judged by C01)
                self.gene_read_cap = max(self.gene_read_cap, 8 * (self.failures_limit + 1) * max(self.gene_length, 4) + 2000)
                return StackBasedGGGPRepresentation(self.grammar, gene_length=max(self.gene_length, 4), failures_limit=self.failures_limit)
            raise ValueError(k)

        self.rep = self.guarded(res, build)
        if self.rep is None:
            self.construct_error = res
        return res

    def depth_limited(self):
        return self.rep_kind == "dsge" or (self.rep_kind in ("tree", "ge", "sge") and self.decider_kind != "progressive")

    # ------------------------------------------------------------ operations
    def op_create(self):
        res = OpResult("create")
        self.install_flaky()
        g = self.guarded(res, lambda: self.rep.create_genotype(self.random))
        if res.ok:
            self.pool.append(g)
            self.origin.append(("create",))
            res.new = [len(self.pool) - 1]
        self.ctx.log("op create", res.ok, res.error)
        return res

    def op_map(self, i):
        res = OpResult("map", (i,))
        self.install_flaky()
        p = self.guarded(res, lambda: self.rep.genotype_to_phenotype(self.pool[i]))
        if res.ok:
            res.phenotype = p
            if i not in self.pheno:
                self.pheno[i] = p
        self.ctx.log("op map", i, res.ok, res.error)
        return res

    def op_mutate(self, i):
        res = OpResult("mutate", (i,))
        self.install_flaky()
        g = self.guarded(res, lambda: self.rep.mutate(self.random, self.pool[i]))
        if res.ok:
            self.pool.append(g)
            self.origin.append(("mutate", i))
            res.new = [len(self.pool) - 1]
        self.ctx.log("op mutate", i, res.ok, res.error)
        return res

    def op_crossover(self, i, j):
        res = OpResult("crossover", (i, j))
        self.install_flaky()
        r = self.guarded(res, lambda: self.rep.crossover(self.random, self.pool[i], self.pool[j]))
        if res.ok:
            try:
                g1, g2 = r
            except Exception:
                res.ok = False
                res.error = "crossover-did-not-return-a-pair"
                res.foreign = "crossover-did-not-return-a-pair@crossover"
                return res
            for g in (g1, g2):
                self.pool.append(g)
                self.origin.append(("crossover", i, j))
                res.new.append(len(self.pool) - 1)
        self.ctx.log("op crossover", i, j, res.ok, res.error)
        return res

    def op_redeclare(self):
        """The documented idiom `Cls.__init__.__annotations__[field] = NewType` followed by a new extraction in the same
        process (metahandler docstrings): one base-typed field of one production gets another base type / refinement; the
        specification, the reference and the grammar are rebuilt, the pool (programs of the old grammar) is dropped."""
        from .spec import gen_refinement, render_type

        H = self.ctx.H
        res = OpResult("redeclare")
        if getattr(self, "is_corpus", False):
            res.error = "corpus"  # the shipped classes are shared by the whole process: never re-declared
            return res
        reg = self.ref.registered()
        cands = []
        for c in self.spec["classes"]:
            if c["kind"] in ("data", "plain") and c["name"] in reg and not c.get("inherit"):  # (an inherited constructor is shared)
                for i, (fn, ft) in enumerate(c["fields"]):
                    base = ft[1] if ft[0] == "ann" else ft
                    if fn.startswith("f") and base[0] in ("int", "float", "str", "bool") and not (ft[0] == "ann" and ft[2][0].startswith("Dependent")):
                        cands.append((c, i))
        if not cands:
            return res
        c, i = cands[H.draw(len(cands))]
        fn, old = c["fields"][i]
        kind = H.pick(["int", "float", "bool", "str", "ann-int", "ann-float", "ann-str"])
        new = [kind] if not kind.startswith("ann-") else ["ann", [kind[4:]], gen_refinement(H, kind[4:], self.feat)]
        if new == old:
            return res
        deps = []
        src = render_type(new, deps)

        def apply():
            cls = self.built.cls[c["name"]]
            tobj = eval(src, self.built.module.__dict__)
            cls.__init__.__annotations__[fn] = tobj
            if fn in getattr(cls, "__annotations__", {}):
                cls.__annotations__[fn] = tobj
            c["fields"][i] = [fn, new]
            self.ref = Ref(self.spec, self.built)
            self.built.source += f"\n{c['name']}.__init__.__annotations__[{fn!r}] = {src}  # re-declared, then extracted again\n"
            self.grammar = self.built.extract()
            self.pool.clear()
            self.pheno.clear()
            self.origin.clear()
            return True

        self.guarded(res, apply)
        self.ctx.log("op redeclare", c["name"], fn, src, res.ok, res.error)
        self.ctx.faults["carry_over"] += 1
        if res.ok:
            r2 = self.construct(max_depth=None)
            if not r2.ok:
                res.ok = False
                res.error = r2.error
                res.foreign = r2.foreign
                res.tb = r2.tb
        return res

    def random_op(self, weights=None, max_pool=40):
        """draw and execute one operation from H"""
        H = self.ctx.H
        w = weights or {"create": 3, "map": 3, "mutate": 4, "crossover": 3}
        if not self.pool or len(self.pool) >= max_pool:
            if not self.pool:
                return self.op_create()
            w = {k: v for k, v in w.items() if k == "map"} or {"map": 1}
        kind = H.weighted([(k, v) for k, v in w.items() if v > 0])
        if kind == "create":
            return self.op_create()
        i = H.draw(len(self.pool))
        if kind == "map":
            return self.op_map(i)
        if kind == "mutate":
            return self.op_mutate(i)
        j = H.draw(len(self.pool))
        return self.op_crossover(i, j)

    def phenotype_of(self, i):
        """first phenotype of pool genotype i (maps it if necessary); None if mapping failed"""
        if i in self.pheno:
            return self.pheno[i]
        if self.rep_kind == "tree":
            self.pheno[i] = self.pool[i]
            return self.pool[i]
        r = self.op_map(i)
        return r.phenotype if r.ok else None

    def start_type(self):
        return ["cls", self.spec["start"]]

    def dispose(self):
        flaky.Flaky.plan = None
        self.built.dispose()


def render_value(v, ref):
    try:
        return show(canon(v, ref))
    except Exception as e:  # pragma: no cover
        return f"<unrenderable {type(e).__name__}>"


# ---------------------------------------------------------------- corpus stratum (shipped grammars and test-suite hierarchies)
_CORPUS = None


def corpus():
    """(specifications, skipped) of the shipped grammars and the test-suite hierarchies, introspected independently (sim.corpus)"""
    global _CORPUS
    if _CORPUS is None:
        import os
        from .corpus import all_corpus_specs

        _CORPUS = all_corpus_specs(os.environ.get("VERIF_REPO", "/repo"))
    return _CORPUS


def corpus_directed(tier, per_spec_quick=4, per_spec_thorough=16, base=10**6):
    try:
        n = len(corpus()[0])
    except BaseException:
        return []
    k = per_spec_quick if tier == "quick" else per_spec_thorough
    import json

    usable = [i for i in range(n) if '"class:' not in json.dumps(corpus()[0][i][0]["classes"])]
    return [{"run_index": base + i * 100 + j, "params": {"corpus": i}} for i in usable for j in range(k)]


def make_world(ctx, feat, **kw):
    """the run's world: generated hierarchy, or -- in a directed corpus run -- the real classes of one corpus entry"""
    if ctx.params.get("corpus") is not None:
        return corpus_world(ctx, ctx.params["corpus"], feat, **kw)
    return SynthWorld(ctx, feat=feat, **kw)


def corpus_world(ctx, idx, feat, **kw):
    """a SynthWorld over the REAL classes of corpus entry idx (no re-declaration: the classes are shared by the whole process)"""
    from .corpus import CorpusBuilt

    spec, cls_by_name = corpus()[0][idx]
    ctx.stat("corpus_runs")
    ctx.log("corpus", spec["origin"])
    w = SynthWorld(ctx, feat=feat, spec=spec, built=CorpusBuilt(spec, cls_by_name), **kw)
    w.is_corpus = True
    return w
