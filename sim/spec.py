"""Generated grammar family Phi: JSON-able specifications, rendering to Python source, and
building real classes in a synthetic module.

Type expressions (lists, so that a spec is JSON-able):
  ["int"] ["float"] ["str"] ["bool"] ["cls", name] ["list", T] ["tuple", [T..]] ["union", [T..]]
  ["ann", T, R]
Refinements R:
  ["IntRange", lo, hi] ["IntList", [..]] ["FloatRange", lo, hi] ["FloatList", [..]] ["VarRange", [..]]
  ["ListSizeBetween", lo, hi] ["LSBWLO", lo, hi] ["StringSizeBetween", lo, hi, alphabet]
  ["WeightedString", matrix, alphabet] ["IntervalRange", lo, hi, top]
  ["Dependent", fieldnames, [[key, R]..], defaultR]   key: value of the (single) sibling field
  ["Flaky", R]                                        harness metahandler: may raise SynthesisException
Classes: {"name", "kind": "abc"|"deco"|"data"|"plain", "parent": name|None, "weight": w|None, "fields": [[fname, T]..]}
"""
from __future__ import annotations

import sys
import types

from .core import Chooser

BASES = ("int", "float", "str", "bool")

DEFAULT_FEATURES = {
    "int": 3, "float": 1, "str": 1, "bool": 2,
    "refined": 4, "cls": 6, "list": 2, "annlist": 3, "tuple": 0, "union": 1, "dependent": 0, "flaky": 0,
    "weights": 0, "nested": 1, "standalone": 1, "unreachable": 1, "plain": 1, "infeasible": 0,
    "max_abstract": 3, "max_classes": 9, "max_fields": 3, "future_annotations": 0, "concrete_start": 0,
    "base_in_list": 1, "finite": 0, "nested_generic": 0, "nested_list": 0, "deep_chain": 0, "self_ref": 0, "multi_dependent": 0, "abstract_weights": 0, "nested_start": 0, "hollow": 0, "barren": 0, "falsy": 0, "wide_weights": 0, "inherited_ctor": 0, "zero_rules": 0, "union_generic": 0, "same_name": 0, "shared_handlers": 0,
}


def features(**over):
    f = dict(DEFAULT_FEATURES)
    f.update(over)
    return f


# ----------------------------------------------------------------- refinements

import string as _string

DEFAULT_ALPHABET = _string.ascii_letters + _string.digits


def gen_refinement(H: Chooser, base: str, feat, finite=False):
    """A refinement for base type `base` with boundary-rich parameters."""
    if base == "int":
        k = H.weighted([("IntRange", 4), ("IntList", 2)] + ([] if finite else [("IntRangeWide", 1)]))
        if k == "IntRange":
            lo = H.pick([0, 0, 1, -3, -1, 5, 100])
            w = H.pick([0, 1, 2, 3, 9])
            return ["IntRange", lo, lo + w]
        if k == "IntRangeWide":
            lo = H.pick([0, -2000, 1])
            return ["IntRange", lo, lo + H.pick([1001, 5000, 10**6])]
        n = 1 + H.draw(4)
        return ["IntList", [H.pick([-7, 0, 1, 2, 3, 42, 1000]) for _ in range(n)]]
    if base == "float":
        if H.draw(2) and not finite:
            lo = H.pick([0.0, -1.0, 0.5, 10.0, 0, 1, -3, 0.1 + 0.2, 1e-12, 1 / 3])  # integer literals too, as in geml/grammars/sgp.py
            return ["FloatRange", lo, lo + H.pick([0.0, 1.0, 0.25, 100.0, 9, 1, 0.0, 4e-12])]
        n = 1 + H.draw(3)
        return ["FloatList", [H.pick([0.0, -1.5, 0.1, 2.0, 1e-9]) for _ in range(n)]]
    if base == "str":
        k = H.weighted([("VarRange", 3), ("StringSizeBetween", 2), ("WeightedString", 1)])
        if k == "VarRange":
            n = 1 + H.draw(3)
            return ["VarRange", [H.pick(["x", "y", "z", "", "ab"]) for _ in range(n)]]
        if k == "StringSizeBetween":
            lo = H.pick([0, 0, 1, 2])
            # (the last alphabet is the library's default -- letters and digits --, rendered by leaving the argument out)
            return ["StringSizeBetween", lo, lo + H.pick([0, 1, 3]), H.pick(["a", "ab", "xyz0", DEFAULT_ALPHABET])]
        rows = 1 + H.draw(3)
        alpha = H.pick([["a"], ["a", "c"], ["a", "c", "g", "t"]])
        matrix = []
        for _ in range(rows):
            row = [H.pick([0.0, 0.25, 0.5, 1.0]) for _ in alpha]
            if not any(row):
                row[H.draw(len(row))] = 1.0
            matrix.append(row)
        return ["WeightedString", matrix, alpha]
    if base == "interval":
        lo = H.pick([0, 1, 2])
        hi = lo + 1 + H.draw(3)
        return ["IntervalRange", lo, hi, hi + 1 + H.draw(4)]
    raise ValueError(base)


def gen_list_refinement(H: Chooser):
    lo = H.pick([0, 0, 1, 2])
    hi = lo + H.pick([0, 1, 2])
    return [H.pick(["ListSizeBetween", "LSBWLO"]), lo, hi]


# ----------------------------------------------------------------- types

def gen_type(H: Chooser, feat, refs, level=0, allow_dependent_on=None, finite=False):
    """refs: class names that may be referenced here."""
    opts = []
    for b in BASES:
        if feat[b] and not (finite and b in ("int", "float")):
            opts.append((b, feat[b]))
    if feat["refined"]:
        opts.append(("refined", feat["refined"]))
    if refs and feat["cls"]:
        opts.append(("cls", feat["cls"]))
    if level < 2:
        if feat["list"] and not finite:
            opts.append(("list", feat["list"]))
        if feat["annlist"]:
            opts.append(("annlist", feat["annlist"]))
        if feat["tuple"]:
            opts.append(("tuple", feat["tuple"]))
        if feat["union"]:
            opts.append(("union", feat["union"]))
    if not opts:
        opts = [("bool", 1)]
    k = H.weighted(opts)
    if k in BASES:
        return [k]
    if k == "refined":
        b = H.weighted([("int", 4), ("float", 1 if not finite else 0), ("str", 2)] + ([("interval", 1)] if feat.get("interval") else []))
        if b == "interval":
            return ["ann", ["tuple", [["int"], ["int"]]], gen_refinement(H, "interval", feat)]
        r = gen_refinement(H, b, feat, finite)
        if feat["flaky"] and H.draw(4) < feat["flaky"]:
            r = ["Flaky", r]
        return ["ann", [b], r]
    if k == "cls":
        return ["cls", H.pick(refs)]
    if k in ("list", "annlist"):
        if feat.get("nested_list") and H.draw(5) < feat["nested_list"]:
            # a list of lists: list[list[T]] / Annotated[list[list[T]], ...] / list[Annotated[list[T], ...]]
            leaf = ["cls", H.pick(refs)] if (refs and H.draw(2)) else [H.pick(["int", "bool"])]
            inner = ["list", leaf] if H.draw(2) else ["ann", ["list", leaf], gen_list_refinement(H)]
        elif feat.get("nested_generic") and refs and H.draw(4) < feat["nested_generic"]:
            # a union or tuple as the element type: list[Union[A, int]], Annotated[list[tuple[A, B]], ...]
            parts = [["cls", H.pick(refs)]] + [H.pick([["cls", H.pick(refs)], ["bool"], ["int"]]) for _ in range(1 + H.draw(2))]
            if H.draw(2):
                alts = []
                for x in parts:
                    if x not in alts:
                        alts.append(x)
                inner = ["union", alts] if len(alts) > 1 else alts[0]
            else:
                inner = ["tuple", parts]
        elif refs and feat["cls"] and (H.draw(3) or not feat["base_in_list"]):
            inner = ["cls", H.pick(refs)]
        elif feat["refined"] and H.draw(2):
            inner = ["ann", ["int"], gen_refinement(H, "int", feat, finite)]
        else:
            inner = [H.pick([b for b in BASES if feat[b] and not (finite and b in ("int", "float"))] or ["bool"])]
        if k == "list":
            return ["list", inner]
        return ["ann", ["list", inner], gen_list_refinement(H)]
    if k == "tuple":
        n = 1 + H.draw(3)
        elems = [gen_type(H, feat, refs, level + 2, finite=finite) for _ in range(n)]
        if feat.get("nested_generic") and refs and H.draw(4) == 0:
            # a union as an element of the tuple: tuple[bool, Union[float, A]]
            elems[H.draw(n)] = ["union", [["cls", H.pick(refs)], H.pick([["float"], ["bool"], ["int"]])]]
        return ["tuple", elems]
    if k == "union":
        n = 2 + H.draw(2)
        alts = []
        for _ in range(n):
            t = gen_type(H, feat, refs, level + 2, finite=finite)
            if t not in alts:
                alts.append(t)
        if feat.get("union_generic") and refs and H.draw(3) == 0:
            # a generic member next to class / base members: Union[A, list[B]], Union[int, tuple[B, bool]]
            x = ["cls", H.pick(refs)]
            g = H.pick([["list", x], ["ann", ["list", x], ["ListSizeBetween", 1, 2]], ["tuple", [x, ["bool"]]]])
            if g not in alts and not (finite and g[0] == "list"):
                alts.append(g)
        if len(alts) < 2:
            return alts[0]
        return ["union", alts]
    raise AssertionError(k)


def gen_spec(H: Chooser, feat=None) -> dict:
    feat = feat or DEFAULT_FEATURES
    finite = bool(feat.get("finite"))
    nA = 1 + H.draw(feat["max_abstract"])
    classes = []
    abstracts = []
    for i in range(nA):
        parent = None
        if i > 0 and feat["nested"] and H.draw(3) == 2:
            parent = H.pick(abstracts)
            # at most 3 layers
            depth = 1
            p = parent
            while p is not None:
                depth += 1
                p = next(c for c in classes if c["name"] == p)["parent"]
            if depth > 3:
                parent = None
        kind = "deco" if (parent is not None or H.draw(4) == 3) else "abc"
        name = f"A{i}"
        aw = None
        if parent is not None and feat.get("abstract_weights") and feat["weights"] and H.draw(2):
            aw = H.pick([0.0, 0.5, 2.0, 3.0])  # a nested abstract type is a production of its parent and may be weighted too
        classes.append({"name": name, "kind": kind, "parent": parent, "weight": aw, "fields": [], "weight_first": bool(H.draw(2))})
        abstracts.append(name)
    standalone = []
    if feat["standalone"] and H.draw(3) == 2:
        for j in range(1 + H.draw(2)):
            standalone.append(f"D{j}")
    refs_all = abstracts + standalone
    n_conc = 0
    budget = feat["max_classes"] - nA - len(standalone)

    def ckind():
        return "plain" if feat["plain"] and H.draw(5) == 4 else "data"

    def weight():
        if feat["weights"] and H.draw(2):
            if feat.get("wide_weights") and H.draw(4) == 0:
                return H.pick([1e8, 1e-7, 1e6, 1e9])  # ratios beyond the resolution of the weighted chooser
            return H.pick([0.0, 0.5, 1.0, 2.0, 3.0, 0.25])
        return None

    def gen_fields(refs, base_only=False):
        nf = H.draw(feat["max_fields"] + 1)
        fields = []
        for k in range(nf):
            f = features(**{**feat, "cls": 0, "list": 0, "annlist": 0, "union": 0, "tuple": 0}) if base_only else feat
            t = gen_type(H, f, [] if base_only else refs, finite=finite)
            fields.append([f"f{k}", t])
        # dependent refinement: a later field depends on an earlier small-domain field
        if feat["dependent"] and len(fields) >= 1 and H.draw(2):
            key_t = H.pick([["ann", ["int"], ["IntRange", 0, 2]], ["bool"], ["ann", ["int"], ["IntRange", -2, 0]]])
            keys = [key_t[2][1] + i for i in range(3)] if key_t[0] == "ann" else [False, True]
            dep_base = H.pick(["int", "str"])
            table = []
            for kv in keys:
                if dep_base == "str" and H.draw(3) == 2:
                    r = ["VarRange", []]  # infeasible in this context: the library's own backtracking path
                else:
                    r = gen_refinement(H, dep_base, {**feat}, finite=True)
                    if r[0] == "WeightedString":
                        r = ["VarRange", ["w"]]
                table.append([kv, r])
            if feat.get("multi_dependent") and H.draw(2):
                # a refinement depending on TWO siblings, named in non-alphabetical order, through a non-symmetric function
                if H.draw(2):
                    fields = [["k0", ["ann", ["int"], ["IntRange", 0, 2]]], ["k1", ["ann", ["int"], ["IntRange", 5, 6]]]] + fields[: max(0, feat["max_fields"] - 3)]
                    fields.append(["d0", ["ann", ["int"], ["Dependent2", "k1,k0"]]])  # value in [k1 - k0, k1]
                else:
                    # siblings of DIFFERENT base types: handing them to the callable in another order puts a bool into an int field
                    fields = [["k0", ["bool"]], ["k1", ["ann", ["int"], ["IntRange", 5, 6]]]] + fields[: max(0, feat["max_fields"] - 3)]
                    fields.append(["d0", ["ann", ["int"], ["Dependent3", "k1,k0"]]])  # value in {k1, k1 + 1}
            else:
                fields = [["k0", key_t]] + fields[: feat["max_fields"] - 2] + [["d0", ["ann", [dep_base], ["Dependent", "k0", table]]]]
        return fields

    # every abstract type gets one production that is guaranteed to terminate (base fields only)
    infeasible = bool(feat["infeasible"])
    for a in abstracts:
        has_abstract_child = any(c["parent"] == a for c in classes if c["kind"] in ("abc", "deco"))
        if infeasible and a == abstracts[-1]:
            # only recursive productions: no finite derivation from this type
            classes.append({"name": f"C{n_conc}", "kind": "data", "parent": a, "weight": None, "fields": [["f0", ["cls", a]]]})
            n_conc += 1
            continue
        classes.append({"name": f"C{n_conc}", "kind": ckind(), "parent": a, "weight": weight(), "fields": gen_fields([], base_only=True)})
        n_conc += 1
    budget -= len(abstracts)
    extra = H.draw(max(1, budget + 1)) if budget > 0 else 0
    for _ in range(extra):
        a = H.pick(abstracts)
        if infeasible and a == abstracts[-1]:
            continue
        classes.append({"name": f"C{n_conc}", "kind": ckind(), "parent": a, "weight": weight(), "fields": gen_fields(refs_all)})
        n_conc += 1
    if feat.get("deep_chain") and H.draw(3) == 0:
        # K0 <- K1 <- K2 <- K3: a chain of concrete classes, used by a recursive production (deep non-abstract path)
        depth = 2 + H.draw(3)
        for j in range(depth):
            classes.append({"name": f"K{j}", "kind": "data", "parent": None, "weight": None,
                            "fields": [["f0", ["bool"] if j == 0 else ["cls", f"K{j - 1}"]]]})
        a = H.pick(abstracts)
        ktop = ["cls", f"K{depth - 1}"]
        if feat.get("union") and H.draw(2):
            ktop = ["union", [ktop, ["bool"]]]  # the deep stand-alone class as a MEMBER of a union (deeper than any production)
        classes.append({"name": f"C{n_conc}", "kind": "data", "parent": a, "weight": None,
                        "fields": [["f0", ktop], ["f1", ["cls", a]]] if H.draw(2) else [["f0", ["cls", a]], ["f1", ktop]]})
        n_conc += 1
    if feat.get("self_ref") and H.draw(3) == 0:
        # a production that names a concrete production (itself or a sibling) directly in a field type
        a = H.pick(abstracts)
        me = f"C{n_conc}"
        sibs = [c["name"] for c in classes if c["parent"] == a and c["kind"] in ("data", "plain")]
        target = me if (H.draw(2) or not sibs) else H.pick(sibs)
        shape = H.draw(3)
        ft = ["union", [["cls", target], ["bool"]]] if shape == 0 else (["ann", ["list", ["cls", target]], ["ListSizeBetween", 0, 2]] if shape == 1 else ["list", ["cls", target]])
        classes.append({"name": me, "kind": "data", "parent": a, "weight": None, "fields": [["f0", ft], ["f1", ["bool"]]]})
        n_conc += 1
    for j, d in enumerate(standalone):
        # standalone concrete classes may only mention abstracts and earlier standalone ones (no unbreakable cycle)
        classes.append({"name": d, "kind": ckind(), "parent": None, "weight": None, "fields": gen_fields(abstracts + standalone[:j]) or [["f0", ["bool"]]]})
    if feat["unreachable"] and H.draw(3) == 2:
        classes.append({"name": "U0", "kind": "abc", "parent": None, "weight": None, "fields": []})
        classes.append({"name": "U1", "kind": "data", "parent": "U0", "weight": None, "fields": [["f0", ["int"]]]})
        if H.draw(2):
            classes.append({"name": "U2", "kind": "data", "parent": None, "weight": None, "fields": [["f0", ["cls", "A0"]]]})
    if feat.get("same_name") and H.draw(4) == 0:
        # two DIFFERENT classes with the same module and qualified name, as a class factory makes them
        # (geml.grammars.symbolic_regression.make_var returns a new `make_var.<locals>.Var` at every call)
        a = H.pick(abstracts)
        flds = [["f0", H.pick([["bool"], ["int"], ["cls", H.pick(abstracts)]])]]
        for j in range(2):
            classes.append({"name": f"F{j}", "kind": "data", "parent": a, "weight": None, "fields": [list(x) for x in flds], "factory": "_make_F"})
    if feat.get("zero_rules") and H.draw(4) == 0:
        # a nested abstract type ALL of whose productions are declared with weight zero (nothing to normalise in that rule)
        classes.append({"name": "AZ", "kind": "deco", "parent": H.pick(abstracts), "weight": None, "fields": [], "weight_first": False})
        for j in range(1 + H.draw(2)):
            classes.append({"name": f"Z{j}", "kind": "data", "parent": "AZ", "weight": 0.0, "fields": [["f0", ["bool"]]] if H.draw(2) else []})
    if feat.get("inherited_ctor") and H.draw(3) == 0:
        # an abstract dataclass that declares the fields, and concrete productions that only inherit its constructor
        flds = gen_fields(list(abstracts)) or [["f0", ["bool"]]]
        flds = [[fn, ft] for fn, ft in flds if not fn.startswith(("k", "d"))] or [["f0", ["bool"]]]  # no dependent refinements here
        classes.append({"name": "AI", "kind": "deco", "parent": H.pick(abstracts), "weight": None, "fields": [], "declares": flds, "weight_first": False})
        for j in range(1 + H.draw(2)):
            classes.append({"name": f"I{j}", "kind": "data", "parent": "AI", "weight": weight(), "fields": [list(x) for x in flds], "inherit": True})
    if feat.get("hollow") and H.draw(3) == 0:
        # an abstract type without any production, mentioned by one production (which therefore has no finite derivation)
        classes.append({"name": "H0", "kind": "abc", "parent": None, "weight": None, "fields": []})
        classes.append({"name": f"C{n_conc}", "kind": "data", "parent": H.pick(abstracts), "weight": weight(),
                        "fields": [["f0", ["cls", "H0"]]] if H.draw(2) else [["f0", ["bool"]], ["f1", ["cls", "H0"]]]})
        n_conc += 1
    if feat.get("barren") and H.draw(3) == 0:
        # registered through the considered list only, not reachable from the start, and without a finite derivation
        classes.append({"name": "B0", "kind": "abc", "parent": None, "weight": None, "fields": []})
        classes.append({"name": "B1", "kind": "data", "parent": "B0", "weight": weight(), "fields": [["f0", ["cls", "B0"]]]})
    if feat.get("falsy"):
        for c in classes:
            if c["kind"] in ("data", "plain") and H.draw(4) == 0:
                c["falsy"] = True
    # precondition of weight normalisation: not every production of a type has weight zero
    for a in abstracts:
        kids = [c for c in classes if c["parent"] == a]
        if kids and all(c.get("weight") == 0.0 for c in kids):
            kids[0]["weight"] = 1.0
    start = "A0"
    nested = [c["name"] for c in classes if c["kind"] in ("abc", "deco") and c["parent"] is not None]
    if feat.get("nested_start") and nested and H.draw(3) == 2:
        start = H.pick(nested)  # a sub-grammar rooted at a type that is itself a production of another type
    elif feat["concrete_start"] and H.draw(4) == 3:
        start = H.pick([c["name"] for c in classes if c["kind"] in ("data", "plain") and c["name"][0] in "CD"])
    # considered subtypes: every concrete class, plus a seeded subset of the abstract ones, in a seeded order
    considered = [c["name"] for c in classes if c["kind"] in ("data", "plain")]
    for c in classes:
        if c["kind"] in ("abc", "deco") and H.draw(2):
            considered.append(c["name"])
    perm = H.permutation(len(considered))
    considered = [considered[i] for i in perm]
    return {"classes": classes, "start": start, "considered": considered,
            "future_annotations": bool(feat["future_annotations"] and H.draw(2)),
            "inline_lambdas": bool(feat["future_annotations"] and H.draw(2)),
            "shared_handlers": bool(feat.get("shared_handlers") and H.draw(2)),
            "expansion_depthing": False}


# ----------------------------------------------------------------- rendering

def render_refinement(r, deps: list) -> str:
    k = r[0]
    if k == "IntRange":
        return f"IntRange({r[1]}, {r[2]})"
    if k == "IntList":
        return f"IntList({r[1]!r})"
    if k == "FloatRange":
        return f"FloatRange({r[1]!r}, {r[2]!r})"
    if k == "FloatList":
        return f"FloatList({r[1]!r})"
    if k == "VarRange":
        return f"VarRange({r[1]!r})"
    if k in ("ListSizeBetween", "LSBWLO"):
        ctor = "ListSizeBetween" if k == "ListSizeBetween" else "ListSizeBetweenWithoutListOperations"
        if SHARED_HANDLERS[0]:
            # ONE refinement object declared on every list field with these bounds (`small = ListSizeBetween(1, 2)` at module level)
            name = f"_shared_{ctor}_{r[1]}_{r[2]}"
            definition = f"{name} = {ctor}({r[1]}, {r[2]})"
            if definition not in deps:
                deps.append(definition)
            return name
        return f"{ctor}({r[1]}, {r[2]})"
    if k == "StringSizeBetween":
        if r[3] == DEFAULT_ALPHABET:
            return f"StringSizeBetween({r[1]}, {r[2]})"
        return f"StringSizeBetween({r[1]}, {r[2]}, {r[3]!r})"
    if k == "WeightedString":
        return f"WeightedStringHandler(_np.array({r[1]!r}), {r[2]!r})"
    if k == "IntervalRange":
        return f"IntervalRange({r[1]}, {r[2]}, {r[3]})"
    if k == "Flaky":
        return f"Flaky({render_refinement(r[1], deps)})"
    if k == "Dependent2":
        a, b = r[1].split(",")
        if INLINE_LAMBDAS[0]:
            return f"Dependent({r[1]!r}, lambda {a}, {b}: IntRange({a} - {b}, {a}))"
        fn = f"_dep{len(deps)}"
        deps.append(f"def {fn}({a}, {b}):\n    return IntRange({a} - {b}, {a})")
        return f"Dependent({r[1]!r}, {fn})"
    if k == "Dependent3":
        a, b = r[1].split(",")
        if INLINE_LAMBDAS[0]:
            return f"Dependent({r[1]!r}, lambda {a}, {b}: IntList([{a}, {a} + 1]))"
        fn = f"_dep{len(deps)}"
        deps.append(f"def {fn}({a}, {b}):\n    return IntList([{a}, {a} + 1])")
        return f"Dependent({r[1]!r}, {fn})"
    if k == "Dependent":
        if INLINE_LAMBDAS[0]:
            # the documented idiom: the callable written as a lambda inside the annotation
            expr = render_refinement(r[2][0][1], deps)
            for key, rr in reversed(r[2]):
                expr = f"({render_refinement(rr, deps)} if {r[1]} == {key!r} else {expr})"
            return f"Dependent({r[1]!r}, lambda {r[1]}: {expr})"
        fn = f"_dep{len(deps)}"
        lines = [f"def {fn}({r[1]}):"]
        for key, rr in r[2]:
            lines.append(f"    if {r[1]} == {key!r}:")
            lines.append(f"        return {render_refinement(rr, deps)}")
        lines.append(f"    return {render_refinement(r[2][0][1], deps)}")
        deps.append("\n".join(lines))
        return f"Dependent({r[1]!r}, {fn})"
    raise ValueError(k)


def render_type(t, deps: list) -> str:
    k = t[0]
    if k in BASES:
        return k
    if k == "cls":
        return t[1]
    if k == "list":
        return f"list[{render_type(t[1], deps)}]"
    if k == "tuple":
        return "tuple[" + ", ".join(render_type(x, deps) for x in t[1]) + "]"
    if k == "union":
        return "Union[" + ", ".join(render_type(x, deps) for x in t[1]) + "]"
    if k == "ann":
        return f"Annotated[{render_type(t[1], deps)}, {render_refinement(t[2], deps)}]"
    raise ValueError(k)


def _mentions(t, names):
    k = t[0]
    if k == "cls":
        return t[1] in names
    if k in ("list", "ann"):
        return _mentions(t[1], names)
    if k in ("tuple", "union"):
        return any(_mentions(x, names) for x in t[1])
    return False


PRELUDE = '''from abc import ABC
from dataclasses import dataclass
from typing import Annotated, Union
import numpy as _np
from geneticengine.grammar.decorators import abstract, weight
from geneticengine.grammar.metahandlers.ints import IntRange, IntList, IntervalRange
from geneticengine.grammar.metahandlers.floats import FloatRange, FloatList
from geneticengine.grammar.metahandlers.vars import VarRange
from geneticengine.grammar.metahandlers.lists import ListSizeBetween, ListSizeBetweenWithoutListOperations
from geneticengine.grammar.metahandlers.strings import StringSizeBetween, WeightedStringHandler
from geneticengine.grammar.metahandlers.dependent import Dependent
from sim.flaky import Flaky
'''


INLINE_LAMBDAS = [False]
SHARED_HANDLERS = [False]


def render_source(spec) -> str:
    INLINE_LAMBDAS[0] = bool(spec.get("inline_lambdas"))
    SHARED_HANDLERS[0] = bool(spec.get("shared_handlers"))
    out = []
    if spec.get("future_annotations"):
        out.append("from __future__ import annotations")
    out.append(PRELUDE)
    body = []
    deps: list[str] = []
    # parents before children; field types may mention later classes -> defined via a second pass for dataclasses
    # (annotations are evaluated at class creation unless future_annotations), so order classes: abstracts first,
    # then concretes, and patch forward references by assigning __annotations__ is avoided: all classes that are
    # *mentioned* are abstract or standalone; standalone ones only mention earlier ones.
    order = [c for c in spec["classes"] if c["kind"] in ("abc", "deco")]
    order += [c for c in spec["classes"] if c["kind"] in ("data", "plain") and c["parent"] is None]
    order += [c for c in spec["classes"] if c["kind"] in ("data", "plain") and c["parent"] is not None]
    emitted_factories = set()
    for c in order:
        lines = []
        base = c["parent"] or ("ABC" if c["kind"] == "abc" else None)
        bases = f"({base})" if base else ""
        if c["kind"] == "abc":
            lines += [f"class {c['name']}{bases}:", "    pass"]
        elif c["kind"] == "deco":
            if c.get("weight") is not None:
                # both decorator orders are legal
                decos = [f"@weight({c['weight']!r})", "@abstract"] if c.get("weight_first") else ["@abstract", f"@weight({c['weight']!r})"]
                lines += decos
            else:
                lines.append("@abstract")
            if c.get("declares"):
                lines.append("@dataclass")
                later = {c["name"]} | {o["name"] for o in order[order.index(c) + 1:]}
                lines.append(f"class {c['name']}{bases}:")
                for fn, ft in c["declares"]:
                    tt = render_type(ft, deps)
                    lines.append(f"    {fn}: {repr(tt) if _mentions(ft, later) else tt}")
            else:
                lines += [f"class {c['name']}{bases}:", "    pass"]
        else:
            if c.get("weight") is not None:
                lines.append(f"@weight({c['weight']!r})")
            ftxt = [(fn, render_type(ft, deps)) for fn, ft in c["fields"]]
            # a field type that mentions the class itself (or a class defined later) is written as a string annotation
            later = {c["name"]} | {o["name"] for o in order[order.index(c) + 1:]}
            ftxt = [(fn, repr(tt) if _mentions(ft, later) else tt) for (fn, tt), (_, ft) in zip(ftxt, c["fields"])]
            if c.get("factory"):
                if c["factory"] not in emitted_factories:
                    emitted_factories.add(c["factory"])
                    lines += [f"def {c['factory']}():", "    @dataclass", f"    class V{bases}:"]
                    lines += [f"        {fn}: {tt}" for fn, tt in ftxt] or ["        pass"]
                    lines += ["", "    return V", "", ""]
                lines += [f"{c['name']} = {c['factory']}()", f"{c['name']}._sim_serial = {c['name']!r}"]
            elif c.get("inherit"):
                lines += [f"class {c['name']}{bases}:", "    pass"]  # the typed constructor is the parent's
            elif c["kind"] == "data":
                lines += ["@dataclass", f"class {c['name']}{bases}:"]
                lines += [f"    {fn}: {tt}" for fn, tt in ftxt] or ["    pass"]
            else:
                lines.append(f"class {c['name']}{bases}:")
                args = "".join(f", {fn}: {tt}" for fn, tt in ftxt)
                lines.append(f"    def __init__(self{args}):")
                lines += [f"        self.{fn} = {fn}" for fn, _ in ftxt] or ["        pass"]
            if c.get("falsy"):
                # a legal node class whose instances can be falsy (container-like AST nodes define __len__ / __bool__)
                lines += ["", "    def __bool__(self):", f"        return bool(self.{c['fields'][0][0]})" if c["fields"] else "        return False"]
        body.append("\n".join(lines))
    out.extend(deps)
    out.extend(body)
    return "\n\n".join(out) + "\n"


_COUNTER = [0]


def reset_names():
    """module names of built specifications restart at every simulated run, so that nothing
    (e.g. the address-free ordering key of a class) depends on how many runs the process has executed"""
    _COUNTER[0] = 0


class Built:
    """Real classes for a specification, living in a synthetic module registered in sys.modules."""

    def __init__(self, spec, source=None):
        self.spec = spec
        self.source = source or render_source(spec)
        _COUNTER[0] += 1
        self.modname = f"simspec_{_COUNTER[0]}"
        mod = types.ModuleType(self.modname)
        mod.__dict__["__name__"] = self.modname
        sys.modules[self.modname] = mod
        self.module = mod
        exec(compile(self.source, f"<{self.modname}>", "exec", dont_inherit=True), mod.__dict__)
        self.cls = {c["name"]: mod.__dict__[c["name"]] for c in spec["classes"]}
        self.name_of = {v: k for k, v in self.cls.items()}

    def considered(self):
        return [self.cls[n] for n in self.spec["considered"]]

    def start(self):
        return self.cls[self.spec["start"]]

    def extract(self):
        from geneticengine.grammar.grammar import extract_grammar

        return extract_grammar(self.considered(), self.start(), self.spec.get("expansion_depthing", False))

    def dispose(self):
        sys.modules.pop(self.modname, None)
