"""Deep structural snapshots (DESIGN A.1): grammar, program nodes with their gengy_* labels,
genotypes of every representation, individuals with caches."""
from __future__ import annotations

from .ref import canon
from .seams import type_key


def tname(t):
    return getattr(t, "__name__", None) or type_key(t)


def grammar_snapshot(g):
    from geneticengine.grammar.decorators import get_gengy

    snap = {
        "start": tname(g.starting_symbol),
        "alternatives": [(tname(k), [tname(x) for x in v]) for k, v in g.alternatives.items()],
        "distance": sorted((type_key(k), v) for k, v in g.distanceToTerminal.items()),
        "recursive": sorted(type_key(x) for x in set.__iter__(g.recursive_prods)),
        "terminals": sorted(type_key(x) for x in set.__iter__(g.terminals)),
        "non_terminals": sorted(type_key(x) for x in set.__iter__(g.non_terminals)),
        "all_nodes": sorted(type_key(x) for x in set.__iter__(g.all_nodes)),
        "weights": sorted((type_key(k), v) for k, v in g.get_weights().items()),
        "considered": [tname(x) for x in g.considered_subtypes],
        "expansion_depthing": g.expansion_depthing,
        "class_weights": sorted((type_key(x), repr(x.__dict__.get("__gengy__", {}).get("weight")))
                                for x in set.__iter__(g.all_nodes) if isinstance(x, type) and x.__module__ != "builtins"),
    }
    return snap


def diff_keys(a: dict, b: dict):
    return [k for k in a if a[k] != b.get(k)]


LABELS = ("gengy_labeled", "gengy_nodes", "gengy_distance_to_term", "gengy_weighted_nodes")


def _h(*parts) -> str:
    import hashlib

    return hashlib.sha256("\x1f".join(str(p) for p in parts).encode("utf-8", "backslashreplace")).hexdigest()[:20]


class SnapshotTooLarge(Exception):
    """the program has more nodes than a run can afford to re-digest after every operation (the run is then not judged)"""


NODE_BUDGET = 120_000


def node_snapshot(v, ref, memo=None):
    """Digest of the canonical structure plus, per node and list, the gengy labels, the types
    index ({typename: digests of its entries}) and the synthesis context.  Memoised per object
    so that the (quadratic) types index of large trees stays cheap."""
    memo = {} if memo is None else memo
    return _snap(v, ref, memo)


def _snap(v, ref, memo):
    n_seen = memo.get("#", 0) + 1  # visits, memo hits included (the types index of every node lists all its descendants)
    memo["#"] = n_seen
    if n_seen > NODE_BUDGET:
        raise SnapshotTooLarge()
    k = id(v)
    hit = memo.get(k)
    if hit is not None and hit[0] is v:
        return hit[1]
    if isinstance(v, list):
        d = _h("list", *[_snap(e, ref, memo) for e in v])
        memo[k] = (v, d)  # structure first (labels refer to descendants)
        d = _h(d, _labels(v, ref, memo))
    elif type(v) is tuple:
        d = _h("tuple", *[_snap(e, ref, memo) for e in v])
    else:
        n = ref.cls_of(v)
        if n is None:
            d = _h("v", repr(canon(v, ref)))
        else:
            kids = [fn + "=" + _snap(ref.field(v, n, fn), ref, memo) for fn, _ in ref.cls[n]["fields"]]
            init = getattr(v, "gengy_init_values", None)
            init_d = [_snap(x, ref, memo) for x in init] if isinstance(init, (list, tuple)) else ["<none>"]
            d = _h(n, *kids, "init", *init_d)
            memo[k] = (v, d)
            d = _h(d, _labels(v, ref, memo))
    memo[k] = (v, d)
    return d


def _labels(v, ref, memo):
    d = getattr(v, "__dict__", {})
    out = [repr(d.get(k, "<absent>")) for k in LABELS]
    ttw = d.get("gengy_types_this_way")
    if isinstance(ttw, dict):
        out.append(_h(*sorted(tname(k) + ":" + ",".join(_snap(x, ref, memo) for x in vs) for k, vs in ttw.items())))
    else:
        out.append("<absent>")
    sc = d.get("gengy_synthesis_context")
    if sc is not None:
        try:
            dv = ",".join(f"{k}={_snap(x, ref, memo)}" for k, x in sorted(sc.dependent_values.items()))
        except Exception:
            dv = "<?>"
        out.append(f"{sc.depth}/{sc.nodes}/{sc.expansions}/{dv}")
    else:
        out.append("<absent>")
    return _h(*out)


def genotype_snapshot(g, rep_kind, ref):
    if rep_kind == "tree":
        return node_snapshot(g, ref)
    if rep_kind in ("ge", "stack"):
        return ("dna", tuple(g.dna))
    if rep_kind == "sge":
        return ("dna", tuple((k, tuple(v)) for k, v in g.dna.items()))
    if rep_kind == "dsge":
        return ("dna-dsge", tuple((type_key(k), tuple(v)) for k, v in g.dna.items()))
    raise ValueError(rep_kind)
