"""Deep structural snapshots (DESIGN A.1): grammar, program nodes with their gengy_* labels,
genotypes of every representation, individuals with caches."""
from __future__ import annotations

from .ref import canon
from .seams import type_key


def tname(t):
    return getattr(t, "__name__", None) or type_key(t)


def grammar_snapshot(g):
    from geneticengine.grammar.decorators import get_gengy

    snap = {
        "start": tname(g.starting_symbol),
        "alternatives": [(tname(k), [tname(x) for x in v]) for k, v in g.alternatives.items()],
        "distance": sorted((type_key(k), v) for k, v in g.distanceToTerminal.items()),
        "recursive": sorted(type_key(x) for x in set.__iter__(g.recursive_prods)),
        "terminals": sorted(type_key(x) for x in set.__iter__(g.terminals)),
        "non_terminals": sorted(type_key(x) for x in set.__iter__(g.non_terminals)),
        "all_nodes": sorted(type_key(x) for x in set.__iter__(g.all_nodes)),
        "weights": sorted((type_key(k), v) for k, v in g.get_weights().items()),
        "considered": [tname(x) for x in g.considered_subtypes],
        "expansion_depthing": g.expansion_depthing,
        "class_weights": sorted((type_key(x), repr(x.__dict__.get("__gengy__", {}).get("weight")))
                                for x in set.__iter__(g.all_nodes) if isinstance(x, type) and x.__module__ != "builtins"),
    }
    return snap


def diff_keys(a: dict, b: dict):
    return [k for k in a if a[k] != b.get(k)]


LABELS = ("gengy_labeled", "gengy_nodes", "gengy_distance_to_term", "gengy_weighted_nodes")


def node_snapshot(v, ref, seen=None):
    """canonical structure plus, per node and list, the gengy labels, the types index as
    {typename: [canon of entries]} and the synthesis context."""
    if isinstance(v, list):
        kids = tuple(node_snapshot(e, ref) for e in v)
        return ("list", kids, _labels(v, ref))
    if type(v) is tuple:
        return ("tuple", tuple(node_snapshot(e, ref) for e in v))
    n = ref.cls_of(v)
    if n is None:
        return canon(v, ref)
    kids = tuple((fn, node_snapshot(getattr(v, fn, None), ref)) for fn, _ in ref.cls[n]["fields"])
    init = getattr(v, "gengy_init_values", None)
    init_c = tuple(canon(x, ref) for x in init) if isinstance(init, (list, tuple)) else None
    return (n, kids, _labels(v, ref), init_c)


def _labels(v, ref):
    d = getattr(v, "__dict__", {})
    out = []
    for k in LABELS:
        out.append(d.get(k, "<absent>"))
    ttw = d.get("gengy_types_this_way")
    if isinstance(ttw, dict):
        out.append(tuple(sorted((tname(k), tuple(canon(x, ref) for x in vs)) for k, vs in ttw.items())))
    else:
        out.append("<absent>")
    sc = d.get("gengy_synthesis_context")
    if sc is not None:
        try:
            dv = tuple(sorted((k, canon(x, ref)) for k, x in sc.dependent_values.items()))
        except Exception:
            dv = "<?>"
        out.append((sc.depth, sc.nodes, sc.expansions, dv))
    else:
        out.append("<absent>")
    return tuple(out)


def genotype_snapshot(g, rep_kind, ref):
    if rep_kind == "tree":
        return node_snapshot(g, ref)
    if rep_kind in ("ge", "stack"):
        return ("dna", tuple(g.dna))
    if rep_kind == "sge":
        return ("dna", tuple((k, tuple(v)) for k, v in g.dna.items()))
    if rep_kind == "dsge":
        return ("dna-dsge", tuple((type_key(k), tuple(v)) for k, v in g.dna.items()))
    raise ValueError(rep_kind)
