"""Reference models: small, executable, written from the property texts and the user
documentation.  They read the *specification* (sim.spec), never the library's analysis.
"""
from __future__ import annotations

import math

INF = 10**9
BASES = ("int", "float", "str", "bool")
PYBASE = {"int": int, "float": float, "str": str, "bool": bool}


_MISSING = object()

class Ref:
    def __init__(self, spec, built=None):
        self.spec = spec
        self.built = built
        self.cls = {c["name"]: c for c in spec["classes"]}
        self.order = [c["name"] for c in spec["classes"]]
        self._mind = None

    # ------------------------------------------------------------ hierarchy
    def is_abstract(self, n):
        return self.cls[n]["kind"] in ("abc", "deco")

    def parent(self, n):
        return self.cls[n]["parent"]

    def ancestors(self, n):
        out = []
        p = self.parent(n)
        while p is not None:
            out.append(p)
            p = self.parent(p)
        return out

    def is_below(self, n, a):
        return n == a or a in self.ancestors(n)

    def mentioned(self, t, out=None):
        """class names mentioned in a type expression (through list/annotated/union/tuple)"""
        out = [] if out is None else out
        k = t[0]
        if k == "cls":
            out.append(t[1])
        elif k == "list":
            self.mentioned(t[1], out)
        elif k in ("tuple", "union"):
            for x in t[1]:
                self.mentioned(x, out)
        elif k == "ann":
            self.mentioned(t[1], out)
        return out

    def registered(self):
        """Closure the extraction walks: start; parents; field types of concrete classes;
        considered classes below a registered one."""
        reg = []
        todo = [self.spec["start"]]
        considered = self.spec["considered"]
        while todo:
            n = todo.pop()
            if n in reg:
                continue
            reg.append(n)
            if self.parent(n) is not None:
                todo.append(self.parent(n))
            if not self.is_abstract(n):
                for _, t in self.cls[n]["fields"]:
                    todo.extend(self.mentioned(t))
            for st in considered:
                if self.is_below(st, n):
                    todo.append(st)
        return set(reg)

    def productions(self, a, reg=None):
        reg = self.registered() if reg is None else reg
        return [n for n in self.order if self.parent(n) == a and n in reg]

    def concretes_below(self, a, reg=None):
        """concrete registered classes derivable from `a` through productions"""
        reg = self.registered() if reg is None else reg
        if not self.is_abstract(a):
            return [a] if a in reg else []
        out = []
        for p in self.productions(a, reg):
            for c in self.concretes_below(p, reg):
                if c not in out:
                    out.append(c)
        return out

    # ------------------------------------------------------------ minimum depth (tree-depth mode)
    def list_bounds(self, t):
        """(lo, hi) legal sizes of a list-typed expression: ["list",T] or ["ann",["list",T],R]"""
        if t[0] == "list":
            return (0, 10)
        r = t[2]
        if r[0] == "Flaky":
            r = r[1]
        if r[0] in ("ListSizeBetween", "LSBWLO"):
            return (r[1], r[2])
        return (0, 10)

    def minds(self):
        """least fix-point: name -> minimum depth of a program derivable from it (INF if none)"""
        if self._mind is not None:
            return self._mind
        reg = self.registered()
        d = {n: INF for n in self.order}
        changed = True
        while changed:
            changed = False
            for n in self.order:
                if n not in reg:
                    continue
                if self.is_abstract(n):
                    v = min([d[p] for p in self.productions(n, reg)] or [INF])
                else:
                    fs = [self._mind_type(t, d) for _, t in self.cls[n]["fields"]]
                    m = max(fs or [0])
                    v = INF if m >= INF else 1 + m
                if v < d[n]:
                    d[n] = v
                    changed = True
        self._mind = d
        return d

    def _mind_type(self, t, d):
        k = t[0]
        if k in BASES:
            return 0
        if k == "cls":
            return d[t[1]]
        if k == "list":
            return 0  # may be empty
        if k == "tuple":
            return max([self._mind_type(x, d) for x in t[1]] or [0])
        if k == "union":
            return min(self._mind_type(x, d) for x in t[1])
        if k == "ann":
            inner = t[1]
            if inner[0] == "list":
                lo, _ = self.list_bounds(t)
                return 0 if lo == 0 else self._mind_type(inner[1], d)
            return self._mind_type(inner, d)
        raise ValueError(k)

    def mind_type(self, t):
        return self._mind_type(t, self.minds())

    def mind_start(self):
        return self.minds()[self.spec["start"]]

    def minds_expansion(self):
        """Grammar-expansion depthing as the documentation defines it (docs/grammars.md): the depth grows at every
        expanded production rule -- abstract type +1, concrete production 1 + deepest field, a base value counts 1;
        a refinement adds nothing.  Only defined here for list/tuple/union-free grammars."""
        reg = self.registered()
        d = {n: INF for n in self.order}

        def mt(t):
            k = t[0]
            if k in BASES:
                return 1
            if k == "cls":
                return d[t[1]]
            if k == "ann":
                return mt(t[1])
            raise ValueError(k)

        changed = True
        while changed:
            changed = False
            for n in self.order:
                if n not in reg:
                    continue
                if self.is_abstract(n):
                    m = min([d[p] for p in self.productions(n, reg)] or [INF])
                    v = INF if m >= INF else 1 + m
                else:
                    m = max([mt(t) for _, t in self.cls[n]["fields"]] or [0])
                    v = INF if m >= INF else 1 + m
                if v < d[n]:
                    d[n] = v
                    changed = True
        return d

    def lib_like_minds(self):
        """The library's documented *conservative* convention (lists need one element, bool
        counts like the other base types): used only to phrase premises, never as an oracle."""
        reg = self.registered()
        d = {n: INF for n in self.order}

        def mt(t):
            k = t[0]
            if k in BASES:
                return 0
            if k == "cls":
                return d[t[1]]
            if k == "list":
                return mt(t[1])
            if k == "tuple":
                return max([mt(x) for x in t[1]] or [0])
            if k == "union":
                return min(mt(x) for x in t[1])
            if k == "ann":
                return mt(t[1])
            raise ValueError(k)

        changed = True
        while changed:
            changed = False
            for n in self.order:
                if n not in reg:
                    continue
                if self.is_abstract(n):
                    v = min([d[p] for p in self.productions(n, reg)] or [INF])
                else:
                    m = max([mt(t) for _, t in self.cls[n]["fields"]] or [0])
                    v = INF if m >= INF else 1 + m
                if v < d[n]:
                    d[n] = v
                    changed = True
        return d

    # ------------------------------------------------------------ recursion / reachability
    def edges(self, n, reg):
        if self.is_abstract(n):
            return self.productions(n, reg)
        out = []
        for _, t in self.cls[n]["fields"]:
            out.extend(self.mentioned(t))
        return out

    def reach_from(self, n, reg=None):
        reg = self.registered() if reg is None else reg
        seen = []
        todo = list(self.edges(n, reg))
        while todo:
            x = todo.pop()
            if x in seen:
                continue
            seen.append(x)
            todo.extend(self.edges(x, reg))
        return set(seen)

    def recursive(self):
        reg = self.registered()
        return {n for n in reg if n in self.reach_from(n, reg)}

    def reachable(self):
        reg = self.registered()
        return {self.spec["start"]} | self.reach_from(self.spec["start"], reg)

    # ------------------------------------------------------------ typing
    def cls_of(self, v):
        """spec class name of an instance, or None"""
        if self.built is None:
            return None
        return self.built.name_of.get(type(v))

    def conforms(self, v, t, reg=None, path="$"):
        """None if value v has type t (recursively), else (cause, path)"""
        reg = self.registered() if reg is None else reg
        k = t[0]
        if k in BASES:
            if type(v) is not PYBASE[k]:
                return (f"{k}-field-holds-{_kind(v, self)}", path)
            return None
        if k == "cls":
            n = self.cls_of(v)
            if n is None:
                return (f"class-field-holds-{_kind(v, self)}", path)
            if self.is_abstract(n):
                return ("abstract-class-instantiated", path)
            if n not in reg:
                return ("unregistered-production", path)
            if not self.is_below(n, t[1]):
                return ("production-not-below-declared-type", path)
            for fn, ft in self.cls[n]["fields"]:
                if not self.has_field(v, n, fn):
                    return ("field-missing", f"{path}.{fn}")
                r = self.conforms(self.field(v, n, fn), ft, reg, f"{path}.{fn}")
                if r:
                    return r
            return None
        if k == "list":
            if not isinstance(v, list):
                return (f"list-field-holds-{_kind(v, self)}", path)
            for i, e in enumerate(v):
                r = self.conforms(e, t[1], reg, f"{path}[{i}]")
                if r:
                    return r
            return None
        if k == "tuple":
            if type(v) is not tuple:
                return (f"tuple-field-holds-{_kind(v, self)}", path)
            if len(v) != len(t[1]):
                return ("tuple-arity", path)
            for i, (e, et) in enumerate(zip(v, t[1])):
                r = self.conforms(e, et, reg, f"{path}({i})")
                if r:
                    return r
            return None
        if k == "union":
            same_kind = None
            for alt in t[1]:
                r = self.conforms(v, alt, reg, path)
                if r is None:
                    return None
                # the alternative of the value's own kind explains the failure better than "no alternative"
                core = alt[1] if alt[0] == "ann" else alt
                if same_kind is None and ((core[0] == "tuple" and type(v) is tuple) or (core[0] == "list" and isinstance(v, list))
                                          or (core[0] == "cls" and self.cls_of(v) is not None)):
                    same_kind = r
            return same_kind or ("union-holds-no-alternative", path)
        if k == "ann":
            r = self.conforms(v, t[1], reg, path)
            if r and t[1][0] in ("tuple", "list") and not r[0].endswith("@annotated") and r[1] == path:
                return (r[0] + "@annotated", r[1])  # the refined symbol itself is ill-typed (not something below it)
            return r
        raise ValueError(k)

    # ------------------------------------------------------------ field access
    def has_field(self, v, n, fn):
        return self.field(v, n, fn, _MISSING) is not _MISSING

    def field(self, v, n, fn, default=None):
        """value of constructor parameter fn of node v (class name n): the attribute of that name, or -- for hand-written
        (non-dataclass) classes of the shipped corpus that store a parameter under another name -- the constructor argument the
        library recorded for it"""
        if hasattr(v, fn):
            return getattr(v, fn)
        if self.cls[n].get("kind") == "plain":
            init = getattr(v, "gengy_init_values", None)
            names = [f for f, _ in self.cls[n]["fields"]]
            if isinstance(init, (list, tuple)) and len(init) == len(names):
                return init[names.index(fn)]
        return default

    # ------------------------------------------------------------ refinements
    def refinement_holds(self, v, r, siblings=None):
        """None if predicate holds, else cause token"""
        k = r[0]
        try:
            if k == "Flaky":
                return self.refinement_holds(v, r[1], siblings)
            if k == "Opaque":
                return None  # a refinement of the shipped corpus that the reference does not model: not judged
            if k == "IntRange":
                return None if (type(v) is int and r[1] <= v <= r[2]) else "IntRange"
            if k == "IntList":
                return None if (type(v) is int and v in r[1]) else "IntList"
            if k == "FloatRange":
                return None if (type(v) is float and r[1] <= v <= r[2]) else "FloatRange"
            if k == "FloatList":
                return None if (type(v) is float and v in r[1]) else "FloatList"
            if k == "VarRange":
                return None if v in r[1] else "VarRange"
            if k in ("ListSizeBetween", "LSBWLO"):
                return None if (isinstance(v, list) and r[1] <= len(v) <= r[2]) else k
            if k == "StringSizeBetween":
                return None if (type(v) is str and r[1] <= len(v) <= r[2] and all(ch in r[3] for ch in v)) else k
            if k == "WeightedString":
                return None if (type(v) is str and len(v) == len(r[1]) and all(ch in r[2] for ch in v)) else k
            if k == "IntervalRange":
                # (documented predicate: range size within [min, max] and an end not beyond the top limit; that generate() also
                # starts at >= 0 is not part of it, and the stack machine may select any tuple that validate() accepts)
                ok = (type(v) is tuple and len(v) == 2 and r[1] <= v[1] - v[0] <= r[2] and v[1] <= r[3])
                return None if ok else k
            if k == "Dependent3":
                a, _b = r[1].split(",")
                va = siblings.get(a)
                ok = type(v) is int and type(va) is int and v in (va, va + 1)
                return None if ok else "Dependent3-IntList"
            if k == "Dependent2":
                a, b = r[1].split(",")
                va, vb = siblings.get(a), siblings.get(b)
                ok = type(v) is int and type(va) is int and type(vb) is int and va - vb <= v <= va
                return None if ok else "Dependent2-IntRange"
            if k == "Dependent":
                key = siblings.get(r[1]) if siblings else None
                chosen = None
                for kv, rr in r[2]:
                    if kv == key and type(kv) is type(key):
                        chosen = rr
                        break
                if chosen is None:
                    chosen = r[2][0][1]
                c = self.refinement_holds(v, chosen, siblings)
                return None if c is None else f"Dependent-{c}"
        except Exception:
            return f"{k}-uncheckable"
        raise ValueError(k)

    def check_refinements(self, v, t, path="$", siblings=None, out=None):
        """all refinement failures in a (well-typed) value: list of (cause, path)"""
        out = [] if out is None else out
        k = t[0]
        if k == "cls":
            n = self.cls_of(v)
            if n is None:
                return out
            sib = {}
            for fn, ft in self.cls[n]["fields"]:
                if not self.has_field(v, n, fn):
                    continue
                fv = self.field(v, n, fn)
                self.check_refinements(fv, ft, f"{path}.{fn}", sib, out)
                sib[fn] = fv
        elif k == "list":
            if isinstance(v, list):
                for i, e in enumerate(v):
                    self.check_refinements(e, t[1], f"{path}[{i}]", siblings, out)
        elif k == "tuple":
            if type(v) is tuple:
                for i, (e, et) in enumerate(zip(v, t[1])):
                    self.check_refinements(e, et, f"{path}({i})", siblings, out)
        elif k == "union":
            # refinements of the alternative the value conforms to (first match with holding refinements)
            best = None
            for alt in t[1]:
                if self.conforms(v, alt) is None:
                    o2 = []
                    self.check_refinements(v, alt, path, siblings, o2)
                    if not o2:
                        return out
                    best = best or o2
            if best:
                out.extend(best)
        elif k == "ann":
            c = self.refinement_holds(v, t[2], siblings)
            if c:
                out.append((c, path))
            self.check_refinements(v, t[1], path, siblings, out)
        return out

    # ------------------------------------------------------------ depth / metadata
    def depth(self, v):
        if isinstance(v, (list, tuple)):
            return max([self.depth(e) for e in v] or [0])
        n = self.cls_of(v)
        if n is None:
            return 0
        return 1 + max([self.depth(self.field(v, n, fn)) for fn, _ in self.cls[n]["fields"] if self.has_field(v, n, fn)] or [0])

    def nodes(self, v):
        """all grammar-class instances in v, pre-order"""
        out = []

        def walk(x):
            if isinstance(x, (list, tuple)):
                for e in x:
                    walk(e)
                return
            n = self.cls_of(x)
            if n is None:
                return
            out.append(x)
            for fn, _ in self.cls[n]["fields"]:
                if self.has_field(x, n, fn):
                    walk(self.field(x, n, fn))

        walk(v)
        return out


def _kind(v, ref):
    if v is None:
        return "None"
    t = type(v)
    if t in (int, float, str, bool, tuple):
        return t.__name__
    if isinstance(v, list):
        return "list"
    if ref.cls_of(v) is not None:
        return "node"
    import types as _t

    if isinstance(v, _t.GeneratorType):
        return "generator"
    if hasattr(v, "__next__"):
        return "iterator"
    return "foreign"


# ---------------------------------------------------------------- canonical form (A.1)

def canon(v, ref: Ref):
    """Canonical, address-free structure.  Never calls repr on foreign objects, never
    consumes an iterator."""
    t = type(v)
    if t is float:
        return ("float", v.hex())
    if t in (int, str, bool):
        return (t.__name__, v)
    if v is None:
        return ("None",)
    if isinstance(v, list):
        return ("list", tuple(canon(e, ref) for e in v))
    if t is tuple:
        return ("tuple", tuple(canon(e, ref) for e in v))
    n = ref.cls_of(v)
    if n is not None:
        return (n, tuple((fn, canon(ref.field(v, n, fn), ref)) for fn, _ in ref.cls[n]["fields"]))
    return ("foreign", t.__qualname__)


def show(c, limit=400):
    """compact rendering of a canonical form"""
    def r(c):
        k = c[0]
        if k in ("int", "str", "bool"):
            return repr(c[1])
        if k == "float":
            return repr(float.fromhex(c[1]))
        if k == "None":
            return "None"
        if k == "list":
            return "[" + ", ".join(r(e) for e in c[1]) + "]"
        if k == "tuple":
            return "(" + ", ".join(r(e) for e in c[1]) + ")"
        if k == "foreign":
            return f"<foreign {c[1]}>"
        return f"{k}(" + ", ".join(f"{fn}={r(x)}" for fn, x in c[1]) + ")"
    s = r(c)
    return s if len(s) <= limit else s[: limit - 3] + "..."
