"""Core of the deterministic simulator: choice streams, run context, event log.

One integer (VERIF_SEED) decides everything.  A *run* is identified by
(property, seed, run_index); from it three independent choice streams are derived:

  H  harness structure: swarm configuration, grammar specification, op sequence, fault plan
  R  every answer the simulated RandomSource gives to library code
  S  scheduler decisions: set-iteration permutations, pool order, clock increments, crash points

Every decision goes through Chooser.draw(n) which records the value.  A run is a pure
function of the three recorded integer lists and the code; replay feeds the lists back
(exhausted or out of range -> reduced modulo n / 0), which is what makes shrinking by list
surgery possible.  Logging never draws and never reads a real clock.
"""
from __future__ import annotations

import hashlib
import random
from collections import Counter, deque

STREAMS = ("H", "R", "S")


def derive_seed(*parts) -> int:
    h = hashlib.sha256("/".join(str(p) for p in parts).encode()).digest()
    return int.from_bytes(h[:8], "big")


class Chooser:
    """A recorded stream of bounded integer choices."""

    __slots__ = ("name", "rng", "replay", "pos", "record", "exhausted")

    def __init__(self, name: str, seed: int, replay: list[int] | None = None):
        self.name = name
        self.rng = random.Random(seed)
        self.replay = replay
        self.pos = 0
        self.record: list[int] = []
        self.exhausted = 0

    def draw(self, n: int) -> int:
        """An integer in [0, n). n >= 1."""
        if n <= 1:
            v = 0
        elif self.replay is not None:
            if self.pos < len(self.replay):
                v = self.replay[self.pos] % n
            else:
                v = 0
                self.exhausted += 1
        else:
            v = self.rng.randrange(n)
        self.pos += 1
        self.record.append(v)
        return v

    # conveniences -- all built on draw, so all recorded
    def coin(self, num: int, den: int) -> bool:
        """True with probability num/den.  0 (the shrink target) means False."""
        return self.draw(den) >= den - num

    def between(self, lo: int, hi: int) -> int:
        return lo + self.draw(hi - lo + 1)

    def pick(self, seq):
        return seq[self.draw(len(seq))]

    def weighted(self, pairs):
        """pairs: list of (item, integer weight).  First item is the shrink target."""
        total = sum(w for _, w in pairs)
        v = self.draw(total)
        for item, w in pairs:
            if v < w:
                return item
            v -= w
        return pairs[-1][0]

    def permutation(self, n: int) -> list[int]:
        idx = list(range(n))
        for i in range(n - 1, 0, -1):
            j = i - self.draw(i + 1)  # draw 0 -> identity
            idx[i], idx[j] = idx[j], idx[i]
        return idx


class Violation:
    __slots__ = ("sig", "msg", "run_index")

    def __init__(self, sig: str, msg: str, run_index: int = -1):
        self.sig = sig
        self.msg = msg
        self.run_index = run_index

    def to_json(self):
        return {"sig": self.sig, "msg": self.msg, "run_index": self.run_index}


class HarnessError(Exception):
    """Something is wrong with the machinery itself -- never reported as a VIOLATION."""


class SimCrash(BaseException):
    """Simulated kill -9: unwinds the library from inside a seam call."""


class SimStepCap(BaseException):
    """Deterministic step cap reached (bounded liveness)."""


class Ctx:
    """Per-run context handed to a property's run function."""

    def __init__(self, prop: str, seed: int, run_index: int, tier: str, replay: dict | None = None, params: dict | None = None):
        self.prop = prop
        self.seed = seed
        self.run_index = run_index
        self.tier = tier
        self.params = params or {}
        rp = replay or {}
        self.H = Chooser("H", derive_seed(seed, prop, run_index, "H"), rp.get("H"))
        self.R = Chooser("R", derive_seed(seed, prop, run_index, "R"), rp.get("R"))
        self.S = Chooser("S", derive_seed(seed, prop, run_index, "S"), rp.get("S"))
        self._hash = hashlib.sha256()
        self.n_events = 0
        self.tail: deque[str] = deque(maxlen=40)
        self.faults: Counter[str] = Counter()
        self.stats: Counter[str] = Counter()
        self.violations: list[Violation] = []
        self.sample: dict | None = None
        self.sim_ns = 0  # simulated nanoseconds covered
        self.nontrivial = False
        self.shape: str | None = None  # optional per-property "state" key

    # ---- event log (never draws, never reads a clock)
    def log(self, *parts):
        s = " ".join(str(p) for p in parts)
        self._hash.update(s.encode("utf-8", "backslashreplace"))
        self._hash.update(b"\n")
        self.n_events += 1
        self.tail.append(s if len(s) < 300 else s[:297] + "...")

    def fault(self, kind: str, n: int = 1):
        self.faults[kind] += n
        self.log("FAULT", kind)

    def stat(self, key: str, n: int = 1):
        self.stats[key] += n

    def violate(self, sig: str, msg: str):
        self.log("VIOLATION", sig)
        # one entry per signature per run is enough
        for v in self.violations:
            if v.sig == sig:
                return
        self.violations.append(Violation(sig, msg, self.run_index))

    def digest(self) -> str:
        return self._hash.hexdigest()

    def recording(self) -> dict:
        return {"H": self.H.record, "R": self.R.record, "S": self.S.record}
