"""Fresh-interpreter worker (N2'): the real process environment decides set order.  Reads a
JSON request on stdin, prints a JSON result.  OrderedSimSet is NOT installed here."""
import json
import os
import sys

VERIF = os.path.dirname(os.path.dirname(os.path.abspath(__file__)))
REPO = os.environ.get("VERIF_REPO", "/repo")
sys.path.insert(0, VERIF)
sys.path.insert(0, REPO)
sys.dont_write_bytecode = True

# allocation noise before any class is defined: shifts addresses, hence set order of types
_noise = [object() for _ in range(int(os.environ.get("SIM_ALLOC_NOISE", "0")) * 101)]


def main():
    mode = sys.argv[1]
    req = json.loads(sys.stdin.read())
    if mode == "analysis":
        from sim.spec import Built
        from sim.props.c05 import analysis

        b = Built(req)
        g = b.extract()
        print(json.dumps(analysis(b, g)))
        return 0
    if mode == "trace":
        from sim.props.c08 import worker_trace

        print(json.dumps(worker_trace(req)))
        return 0
    return 2


if __name__ == "__main__":
    sys.exit(main())
