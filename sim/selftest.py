"""Self-tests of the machinery itself.

determinism: every property, N run indices: digests from (a) two executions in this process,
(b) executions in reverse order (different process history), (c) a fresh interpreter with
another PYTHONHASHSEED and without `setarch -R` must all be identical.  A single mismatch is a
harness bug and blocks every claim.
"""
from __future__ import annotations

import json
import os
import subprocess
import sys

from . import runner

ALL = [f"C{i:02d}" for i in range(1, 21)]


def digests(pid, indices, tier="quick", seed=0):
    mod = runner.load_prop(pid)
    if hasattr(mod, "setup"):
        mod.setup(tier, {})
    out = {}
    for ri in indices:
        try:
            ctx = runner.execute_run(mod, pid, seed, ri, tier, timeout=120)
            out[ri] = ctx.digest() + "|" + ",".join(sorted(v.sig for v in ctx.violations))
        except BaseException as e:
            out[ri] = "EXC " + type(e).__name__
    return out


def main(argv):
    if argv and argv[0] == "digests":
        pid, n, seed = argv[1], int(argv[2]), int(argv[3])
        print(json.dumps(digests(pid, range(n), seed=seed)))
        return 0
    if not argv or argv[0] != "determinism":
        print(__doc__)
        return 2
    props = [a.upper() for a in argv[1:] if a.upper() in ALL] or ALL
    n = int(os.environ.get("SELFTEST_N", "120"))
    seed = int(os.environ.get("VERIF_SEED", "0"))
    bad = 0
    for pid in props:
        a = digests(pid, range(n), seed=seed)
        b = digests(pid, reversed(range(n)), seed=seed)
        env = dict(os.environ)
        env["PYTHONHASHSEED"] = "4242"
        p = subprocess.run([sys.executable, "-B", os.path.join(runner.VERIF, "sim", "main.py"), "selftest", "digests", pid, str(n), str(seed)],
                           capture_output=True, text=True, env=env, timeout=1800)
        try:
            c = {int(k): v for k, v in json.loads(p.stdout.strip().splitlines()[-1]).items()}
        except Exception:
            c = {}
            print(p.stderr[-500:])
        m1 = [ri for ri in a if a[ri] != b.get(ri)]
        m2 = [ri for ri in a if a[ri] != c.get(ri)]
        exc = [ri for ri in a if a[ri].startswith("EXC")]
        status = "ok" if not (m1 or m2 or exc) else "MISMATCH"
        if status != "ok":
            bad += 1
        print(f"{pid}: {n} runs x3  same-process-reordered mismatches={m1[:5]} fresh-interpreter mismatches={m2[:5]} exceptions={exc[:5]} -> {status}", flush=True)
    return 1 if bad else 0
