"""Simulator-owned implementations of every source of nondeterminism the properties touch.

N1 SimRandom (RandomSource)    N2 OrderedSimSet on Grammar symbol sets    N3 SimClock
N4 SimFS (real TextIOWrapper/BufferedWriter over a simulated raw file)    N5 SimPool
All are installed by monkeypatching seams the library already has; /repo is not edited.
"""
from __future__ import annotations

import contextlib
import errno
import hashlib
import io
import math
import random as _pyrandom
import sys
import typing

from geneticengine.random.sources import RandomSource, NativeRandomSource

from .core import SimCrash, HarnessError

# ------------------------------------------------------------------ N1 random


class _DetachedRandom(RandomSource):
    """what a SimRandom becomes on the far side of the simulated process boundary: drawing from it is a harness error"""

    def __init__(self, name):
        self.name = name

    def randint(self, min, max):
        raise RuntimeError("a worker-side copy drew from the search's shared random source")

    def random_float(self, min, max):
        raise RuntimeError("a worker-side copy drew from the search's shared random source")


class SimRandom(RandomSource):
    """RandomSource whose two abstract primitives are answered from choice stream R.

    Derived primitives (choice, choice_weighted, shuffle, pop_random, normalvariate,
    random_bool) are the library's own code; they are only wrapped for logging/monitoring.
    policies: uniform | edge | lo | hi | native
    """

    def __init__(self, ctx, policy="uniform", name="shared", chooser=None, edge_den=4, log=True):
        self.ctx = ctx
        self.R = chooser or ctx.R
        self.policy = policy
        self.name = name
        self.draws = 0
        self.edge_den = edge_den
        self.monitor = None  # callable(kind, args, result)
        self._in_normal = 0
        self._log = log
        self.window: list | None = None  # when a list, randint results are appended (C17)
        self.op_cap = None  # bounded liveness: draws allowed since the last reset_cap() (None = unbounded)
        self.op_draws = 0
        if policy == "native":
            self.native = _pyrandom.Random(self.R.draw(2**32))

    def getstate(self):
        return self.draws

    def __reduce__(self):
        # a copy that crosses the simulated process boundary (individual -> representation -> decider -> random source) must not
        # drag the simulator along: the worker side only maps and evaluates, it never draws from the shared stream
        return (_DetachedRandom, (self.name,))

    def reset_cap(self):
        self.op_draws = 0

    def _tick(self):
        self.draws += 1
        if self.op_cap is not None:
            self.op_draws += 1
            if self.op_draws > self.op_cap:
                from .core import SimStepCap

                raise SimStepCap("random draws")

    def randint(self, min: int, max: int) -> int:
        self._tick()
        if max < min:
            # the stdlib raises ValueError for an empty range; keep that contract
            raise ValueError(f"empty range for randint({min},{max})")
        p = self.policy
        if p == "native":
            v = self.native.randint(min, max)
        elif p == "lo":
            v = min
        elif p == "hi":
            v = max
        elif p == "edge" and self.R.draw(self.edge_den) == self.edge_den - 1:
            v = max if self.R.draw(2) else min
            self.ctx.faults["edge_draw"] += 1
        else:
            v = min + self.R.draw(max - min + 1)
        if self._log:
            self.ctx.log("ri", self.name, min, max, v)
        if self.window is not None:
            self.window.append(("randint", min, max, v))
        if self.monitor:
            self.monitor("randint", (min, max), v)
        return v

    def random_float(self, min: float, max: float) -> float:
        self._tick()
        p = self.policy
        if p == "native":
            v = self.native.random() * (max - min) + min
        else:
            if p == "lo":
                u = 0.0
            elif p == "hi":
                u = 1.0 - 2.0**-53
            elif p == "edge" and self.R.draw(self.edge_den) == self.edge_den - 1:
                u = (1.0 - 2.0**-53) if self.R.draw(2) else 0.0
                self.ctx.faults["edge_draw"] += 1
            else:
                u = self.R.draw(2**53) / 2.0**53
            if self._in_normal and u == 0.0:
                u = 2.0**-53  # Box-Muller takes log(u): an exact 0 has probability 2^-53 natively
            v = u * (max - min) + min
        if self._log:
            self.ctx.log("rf", self.name, min, max, v.hex() if isinstance(v, float) else v)
        if self.monitor:
            self.monitor("random_float", (min, max), v)
        return v

    def normalvariate(self, mean, sigma):
        self._in_normal += 1
        try:
            return super().normalvariate(mean, sigma)
        finally:
            self._in_normal -= 1

    def choice(self, choices):
        r = super().choice(choices)
        if self.monitor:
            self.monitor("choice", choices, r)
        return r

    def choice_weighted(self, choices, weights):
        r = super().choice_weighted(choices, weights)
        if self.monitor:
            self.monitor("choice_weighted", (choices, weights), r)
        return r


class LoggedNative(NativeRandomSource):
    """The shipped source, with a draw counter."""

    def __init__(self, seed):
        super().__init__(seed)

    def getstate(self):
        return self.random.getstate()


# ------------------------------------------------------------------ N2 set order

def type_key(t) -> str:
    """Total, address-free key for a type expression."""
    if isinstance(t, type):
        # (classes made by a factory share module and qualified name: the specification's own name tells them apart)
        return f"{t.__module__}.{t.__qualname__}{t.__dict__.get('_sim_serial', '')}"
    if isinstance(t, str):
        return "printed:" + t  # dynamic SGE keys non-class symbols by their printed form
    origin = typing.get_origin(t)
    if origin is typing.Annotated or hasattr(t, "__metadata__"):
        base = typing.get_args(t)[0] if typing.get_args(t) else None
        mh = t.__metadata__[0]
        return f"Annotated[{type_key(base)},{mh_key(mh)}]"
    if origin is not None:
        return f"{type_key(origin)}[{','.join(type_key(a) for a in typing.get_args(t))}]"
    return f"?{type(t).__qualname__}"


def mh_key(mh) -> str:
    lab = getattr(mh, "_sim_label", None)
    if lab is not None:
        return lab
    parts = []
    for k, v in sorted(vars(mh).items()):
        if callable(v):
            v = getattr(v, "__qualname__", "fn")
        elif hasattr(v, "tolist"):
            v = v.tolist()
        parts.append(f"{k}={v!r}" if not isinstance(v, (list, tuple)) or len(repr(v)) < 200 else f"{k}=<{len(v)}>")
    return f"{type(mh).__qualname__}({';'.join(parts)})"


class OrderedSimSet(set):
    """A set whose iteration order is a permutation chosen by the simulator (keyed by
    element *name*, so identical in every process whatever the addresses are)."""

    order_seed = 0  # process-global, set per run by set_order_seed

    def __iter__(self):
        seed = OrderedSimSet.order_seed
        c = self.__dict__.get("_cache")
        if c is not None and c[0] == seed and c[1] == len(self):
            return iter(c[2])
        items = list(set.__iter__(self))
        if seed == 0:
            items.sort(key=type_key)
        else:
            items.sort(key=lambda e: hashlib.sha256(f"{seed}:{type_key(e)}".encode()).digest())
        self.__dict__["_cache"] = (seed, len(items), items)
        return iter(items)

    def _inval(self):
        self.__dict__.pop("_cache", None)

    def add(self, x):
        self._inval()
        return set.add(self, x)

    def discard(self, x):
        self._inval()
        return set.discard(self, x)

    def remove(self, x):
        self._inval()
        return set.remove(self, x)

    def update(self, *a):
        self._inval()
        return set.update(self, *a)

    def clear(self):
        self._inval()
        return set.clear(self)

    def pop(self):
        self._inval()
        return set.pop(self)

    def union(self, *others):
        return OrderedSimSet(set.union(self, *others))

    def copy(self):
        return OrderedSimSet(self)


_SET_PATCHED = False
SET_ORDER_ENABLED = True


def install_set_order():
    """Wrap the Grammar's five symbol sets.  Idempotent; always on (so a seed replays
    identically in a fresh interpreter) unless SET_ORDER_ENABLED is switched off (N2')."""
    global _SET_PATCHED
    if _SET_PATCHED:
        return
    from geneticengine.grammar import grammar as G

    orig_init = G.Grammar.__init__
    orig_syms = G.Grammar.get_all_symbols
    orig_ment = G.Grammar.get_all_mentioned_symbols

    def wrap(s):
        return OrderedSimSet(s) if SET_ORDER_ENABLED and not isinstance(s, OrderedSimSet) else s

    def __init__(self, *a, **k):
        orig_init(self, *a, **k)
        for name in ("all_nodes", "recursive_prods", "terminals", "non_terminals"):
            if hasattr(self, name) and isinstance(getattr(self, name), set):
                setattr(self, name, wrap(getattr(self, name)))

    def get_all_symbols(self):
        r = orig_syms(self)
        return tuple(wrap(x) if isinstance(x, set) else x for x in r)

    def get_all_mentioned_symbols(self):
        r = orig_ment(self)
        return wrap(r) if isinstance(r, set) else r

    G.Grammar.__init__ = __init__
    G.Grammar.get_all_symbols = get_all_symbols
    G.Grammar.get_all_mentioned_symbols = get_all_mentioned_symbols
    _SET_PATCHED = True


def set_order_seed(seed: int):
    OrderedSimSet.order_seed = seed


# ------------------------------------------------------------------ N3 clock

class SimClock:
    """Discrete logical time in ns.  Each read returns `now` and then advances by a seeded
    cost; faults: stall (cost 0) and forward jump."""

    def __init__(self, ctx, start=None, read_costs=(0, 1, 1000, 250_000, 3_000_000), jump_den=0, chooser=None):
        self.ctx = ctx
        self.S = chooser or ctx.S
        self.now = start if start is not None else 1_000_000_000 + self.S.draw(10**9)
        self.read_costs = read_costs
        self.jump_den = jump_den
        self.reads = 0
        self.values: list[int] = []  # value returned at each read
        self.on_event = None  # crash hook: callable(kind)

    def read(self) -> int:
        if self.on_event:
            self.on_event("clock")
        self.reads += 1
        v = self.now
        self.values.append(v)
        cost = self.read_costs[self.S.draw(len(self.read_costs))]
        if cost == 0:
            self.ctx.faults["clock_stall"] += 1
        if self.jump_den and self.S.draw(self.jump_den) == self.jump_den - 1:
            cost += 10**9 * (1 + self.S.draw(100))
            self.ctx.faults["clock_jump"] += 1
        self.advance(cost)
        self.ctx.log("clk", v)
        return v

    def advance(self, ns: int):
        self.now += ns
        self.ctx.sim_ns += ns


@contextlib.contextmanager
def installed_clock(clock: SimClock):
    import time
    from geneticengine.evaluation import tracker as T, recorder as Rm

    saved = []

    def patch(obj, name, val):
        if hasattr(obj, name):
            saved.append((obj, name, getattr(obj, name)))
            setattr(obj, name, val)

    patch(T, "monotonic_ns", clock.read)
    patch(Rm, "monotonic_ns", clock.read)
    patch(time, "monotonic_ns", clock.read)
    patch(time, "perf_counter_ns", clock.read)
    patch(time, "time_ns", clock.read)
    # float clocks, defensively (a refactor of how the repo spells the call must stay under control)
    patch(time, "perf_counter", lambda: clock.read() * 1e-9)
    for mod in (T, Rm):
        for nm in ("monotonic", "perf_counter", "time"):
            if hasattr(mod, nm) and callable(getattr(mod, nm)):
                patch(mod, nm, lambda: clock.read() * 1e-9)
    try:
        yield clock
    finally:
        for obj, name, val in reversed(saved):
            setattr(obj, name, val)


# ------------------------------------------------------------------ N4 file

class SimRaw(io.RawIOBase):
    """The 'kernel image' of one file: what survives a kill.  write() may accept fewer
    bytes than offered (short write), raise ENOSPC, or be the crash point."""

    def __init__(self, fs, path):
        super().__init__()
        self.fs = fs
        self.path = path
        self.image = bytearray()
        self.frozen = False
        self.writes = 0

    def writable(self):
        return True

    def write(self, b):
        b = bytes(b)
        if self.frozen:
            return len(b)  # after the crash nothing reaches the disk (late GC flushes)
        fs = self.fs
        fs.event("write", self, b)
        self.writes += 1
        n = len(b)
        if fs.enospc_after is not None and fs.total_written + n > fs.enospc_after:
            room = max(0, fs.enospc_after - fs.total_written)
            if room == 0:
                fs.ctx.fault("enospc")
                raise OSError(errno.ENOSPC, "No space left on device (simulated)")
            n = room
            fs.ctx.fault("short_write")
        elif fs.short_den and n > 1 and fs.S.draw(fs.short_den) == fs.short_den - 1:
            n = 1 + fs.S.draw(n - 1)
            fs.ctx.fault("short_write")
        self.image += b[:n]
        fs.total_written += n
        fs.ctx.log("wr", self.path, n, len(b))
        return n

    def flush(self):
        if not self.frozen and not self.closed:
            self.fs.event("flush", self, b"")
        return super().flush()


class SimFS:
    def __init__(self, ctx, short_den=0, enospc_after=None, chooser=None):
        self.ctx = ctx
        self.S = chooser or ctx.S
        self.files: dict[str, SimRaw] = {}
        self.short_den = short_den
        self.enospc_after = enospc_after
        self.total_written = 0
        self.n_events = 0
        self.crash_at = None  # event index at which SimCrash is raised
        self.crashed = False
        self.opens: list[tuple[str, str]] = []
        self.event_kinds: list[str] = []

    def event(self, kind, raw=None, data=b""):
        """Every seam event (write, flush, clock read, fitness call...) passes here: crash point."""
        if self.crashed:
            return
        idx = self.n_events
        self.n_events += 1
        self.event_kinds.append(kind)
        if self.crash_at is not None and idx == self.crash_at:
            self.crash(kind)

    def crash(self, kind="explicit"):
        self.crashed = True
        for r in self.files.values():
            r.frozen = True
        self.ctx.fault("crash")
        self.ctx.log("CRASH at", kind)
        raise SimCrash(kind)

    def open(self, path, mode="r", buffering=-1, encoding=None, errors=None, newline=None, **kw):
        path = str(path)
        self.opens.append((path, mode))
        if "w" in mode or path not in self.files:
            raw = SimRaw(self, path)
            if "w" not in mode and "a" not in mode and "x" not in mode:
                raise FileNotFoundError(path)
            self.files[path] = raw
        else:
            old = self.files[path]
            raw = SimRaw(self, path)
            raw.image = old.image  # append keeps the same kernel image
            self.files[path] = raw
        if "b" in mode:
            return io.BufferedWriter(raw) if buffering != 0 else raw
        return io.TextIOWrapper(io.BufferedWriter(raw), encoding=encoding or "utf-8", errors=errors, newline=newline)

    def image(self, path) -> bytes:
        return bytes(self.files[str(path)].image)


@contextlib.contextmanager
def installed_fs(fs: SimFS, prefix="/simfs/"):
    import builtins
    from geneticengine.evaluation import recorder as Rm

    real_open = builtins.open
    real_io_open = io.open

    def sim_open(path, *a, **k):
        try:
            p = str(path)
        except Exception:
            p = ""
        if p.startswith(prefix):
            return fs.open(p, *a, **k)
        return real_open(path, *a, **k)

    had = "open" in vars(Rm)
    old = vars(Rm).get("open")
    Rm.open = sim_open
    builtins.open = sim_open
    io.open = sim_open
    try:
        yield fs
    finally:
        builtins.open = real_open
        io.open = real_io_open
        if had:
            Rm.open = old
        else:
            del Rm.open


# ------------------------------------------------------------------ N5 pool

class SimPool:
    """Stand-in for pathos.multiprocessing.ProcessingPool.  Arguments cross a simulated
    process boundary (dill round-trip: the worker sees a copy); stream S decides which
    runnable task executes next and how long it takes on the SimClock; results are delivered
    according to each method's contract (map: input order; uimap: completion order)."""

    ctx = None
    clock = None
    stats = None

    def __init__(self, nodes=None, *a, **k):
        if nodes is not None and nodes < 1:
            raise ValueError("Number of processes must be at least 1")
        self.nodes = nodes or 4

    def __enter__(self):
        return self

    def __exit__(self, *a):
        return False

    def _run(self, f, items):
        import dill

        ctx = SimPool.ctx
        S = ctx.S
        n = len(items)
        copies = []
        for it in items:
            copies.append(dill.loads(dill.dumps(it)))
        # assign tasks to workers in chunks, as multiprocessing does
        workers = [[] for _ in range(min(self.nodes, max(1, n)))]
        chunksize = max(1, -(-n // (len(workers) * 4))) if n else 1
        w = 0
        for start in range(0, n, chunksize):
            workers[w % len(workers)].append(list(range(start, min(n, start + chunksize))))
            w += 1
        queues = [[i for ch in wk for i in ch] for wk in workers]
        results = [None] * n
        completion = []
        while any(queues):
            live = [q for q in queues if q]
            q = live[S.draw(len(live))]
            i = q.pop(0)
            if S.draw(8) == 7:
                ctx.faults["worker_stall"] += 1
                if SimPool.clock is not None:
                    SimPool.clock.advance(50_000_000)
            results[i] = f(copies[i])
            if SimPool.clock is not None:
                SimPool.clock.advance(1000 * (1 + S.draw(1000)))
            completion.append(i)
        if completion != sorted(completion):
            ctx.faults["pool_reorder"] += 1
        ctx.log("pool", n, "completion", completion)
        if SimPool.stats is not None:
            SimPool.stats.append(tuple(completion))
        return results, completion

    def map(self, f, *iterables):
        items = list(zip(*iterables)) if len(iterables) > 1 else list(iterables[0])
        g = (lambda t: f(*t)) if len(iterables) > 1 else f
        results, _ = self._run(g, items)
        return results

    def imap(self, f, *iterables):
        return iter(self.map(f, *iterables))

    def uimap(self, f, *iterables):
        items = list(zip(*iterables)) if len(iterables) > 1 else list(iterables[0])
        g = (lambda t: f(*t)) if len(iterables) > 1 else f
        results, completion = self._run(g, items)
        return iter([results[i] for i in completion])

    def amap(self, f, *iterables):
        res = self.map(f, *iterables)

        class _R:
            def get(self, timeout=None):
                return res

            def ready(self):
                return True

        return _R()

    def close(self):
        pass

    def join(self):
        pass

    def clear(self):
        pass

    def terminate(self):
        pass


@contextlib.contextmanager
def installed_pool(ctx, clock=None):
    import pathos.multiprocessing as pm
    import pathos.pools as pp

    SimPool.ctx = ctx
    SimPool.clock = clock
    SimPool.stats = []
    saved = [(pm, "ProcessingPool", pm.ProcessingPool), (pm, "ProcessPool", getattr(pm, "ProcessPool", None)),
             (pp, "ProcessPool", getattr(pp, "ProcessPool", None))]
    pm.ProcessingPool = SimPool
    if saved[1][2] is not None:
        pm.ProcessPool = SimPool
    if saved[2][2] is not None:
        pp.ProcessPool = SimPool
    try:
        yield SimPool
    finally:
        for obj, name, val in saved:
            if val is not None:
                setattr(obj, name, val)
        SimPool.ctx = None
        SimPool.clock = None


# ------------------------------------------------------------------ step caps on genotype-backed sources

_CAP = {"limit": 0, "count": 0}


def install_gene_read_cap():
    """Bounded liveness for genotype mapping: every read of a genotype-backed RandomSource
    (GE ListWrapper, SGE StructuredListWrapper, stack ListWrapper) is a step; beyond the cap a
    SimStepCap (BaseException) unwinds the mapper deterministically."""
    from .core import SimStepCap
    from geneticengine.representations.grammatical_evolution import ge, structured_ge
    from geneticengine.representations import stackgggp

    for cls in (ge.ListWrapper, structured_ge.StructuredListWrapper, stackgggp.ListWrapper):
        if getattr(cls, "_sim_capped", False):
            continue
        orig = cls.randint

        def randint(self, *a, __orig=orig, **k):
            _CAP["count"] += 1
            if _CAP["limit"] and _CAP["count"] > _CAP["limit"]:
                raise SimStepCap("gene reads")
            return __orig(self, *a, **k)

        cls.randint = randint
        cls._sim_capped = True


def reset_gene_read_cap(limit):
    _CAP["limit"] = limit
    _CAP["count"] = 0


def gene_reads():
    return _CAP["count"]
