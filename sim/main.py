"""Entry point: main.py check <ID> <quick|thorough> | replay <file> | selftest ...

Run as a script (never python -m, which would load modules twice).
"""
import os
import sys

VERIF = os.path.dirname(os.path.dirname(os.path.abspath(__file__)))
REPO = os.environ.get("VERIF_REPO", "/repo")
# the working tree under test goes first, so that what runs is /repo as it is now
sys.path.insert(0, VERIF)
sys.path.insert(0, REPO)
sys.dont_write_bytecode = True
os.environ.setdefault("GENETICENGINE_VERIF", "1")


def main(argv):
    import geneticengine

    got = os.path.dirname(os.path.dirname(os.path.abspath(geneticengine.__file__)))
    if os.path.realpath(got) != os.path.realpath(REPO):
        print(f"harness error: geneticengine imported from {got}, expected {REPO}", file=sys.stderr)
        return 2
    from sim import runner

    if len(argv) >= 3 and argv[0] == "check":
        return runner.run_check(argv[1].upper(), argv[2])
    if len(argv) >= 2 and argv[0] == "replay":
        code, _ = runner.replay_file(argv[1])
        return code
    if argv and argv[0] == "selftest":
        from sim import selftest

        return selftest.main(argv[1:])
    print(__doc__)
    return 2


if __name__ == "__main__":
    try:
        rc = main(sys.argv[1:])
    except SystemExit:
        raise
    except BaseException:
        import traceback

        traceback.print_exc()
        rc = 2
    sys.stdout.flush()
    sys.exit(rc)
